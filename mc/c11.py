'''C11 - work goes only to eligible workers, only while the pipeline is active.

State graph of the real farm (Hand._reg/_process/notify, dispatch, notify_all,
clear, rerunid, _put) + scheduler with an EXPLICIT farm: 0-2 workers that
register with the current or a stale software revision, disconnect, poll their
status; life-cycle changes (inactive / active / reload to a new revision as
FSM.load does); run requests, dispatch ticks and replies in every order.  Every
byte written to every worker connection is decoded and judged.
'''
from . import common, aegen, schedcheck, c11worker

LEVEL = 'model_checking'
PID = 'C11'


def jobs(ctx, props):
    E = aegen.chain_engines()
    out = []
    quick = ctx.quick()
    names = ['single', 'chain2', 'task-analysis', 'regress-leaf', 'placement'] if quick else \
        ['single', 'chain2', 'pair', 'task-analysis', 'regress-leaf', 'fork', 'placement']
    for name in names:
        out.append((name + '/explicit', E[name], ['A'], props,
                    {'reqs': 2, 'mode': 'explicit',
                     'max_workers': 2, 'outcomes': ('success', 'failure'),
                     'revs': ('r1', 'r2'), 'life': True, 'poll': True,
                     'max_life': 3 if quick else 4}))
    # the register frame of a waiting worker processed a second time, then the
    # worker disconnects: nothing may be written to the lost connection
    out.append(('single/re-register', E['single'], ['A', 'B'], props,
                {'reqs': 1, 'mode': 'explicit', 'max_workers': 2, 'outcomes': ('success',),
                 'revs': ('r1',), 'rereg': True}))
    # one event without run id whose job leaves the scheduler in several batches
    # (a dependant requested together with its ancestor, two targets finishing
    # at different times without new values): every batch draws its own run id
    out.append(('chain2/batches', E['chain2'], ['A', 'B'], props,
                {'reqs': 2, 'req_menu': [('ta.a', ('A', 'B')), ('ta.b', ('A', 'B'))],
                 'outcomes': ('success-none-new',), 'revs': ('r1',)}))
    for name, desc, targets, pr, opts in schedcheck.timer_jobs(props, quick):
        opts = dict(opts, mode='explicit', max_workers=1, outcomes=('success',), revs=('r1',))
        out.append((name + '/explicit', desc, targets, pr, opts))
    return out


def run(ctx):
    states, transitions, selfchecked, per = schedcheck.run(ctx, PID, jobs(ctx, {PID}))
    for p in per[:6]:
        ctx.sample(p)
    worker_cases = c11worker.run(ctx)
    cov = {
        'worker_tier_cases': worker_cases,
        'worker_tier': 'real pl.worker.cluster.execute against the real farm over an in-memory socket: worker revision '
                       '{current, stale, None} x queue {nothing, one, two, regression} x during the run {nothing, pipeline '
                       'goes inactive, new revision}; every case executed',
        'states': states, 'transitions': transitions,
        'traces_validated_against_impl': selfchecked,
        'explanation': 'exploration on the implementation; traces_validated = histories re-executed from scratch '
                       'without snapshot/restore and required to reach the same canonical state',
        'per_engine': per,
    }
    return common.finish(ctx, cov, exhaustive=True)


def replay(data):
    return schedcheck.replay(data)
