'''C09 - the derived task graph is faithful to the declared dependencies.

Every engine of the generated family (every DAG on <= N algorithms x kind
assignment x reference granularity pattern x package sharing x optional
feedback reference x both factory styles) is written out as a real package,
scanned by pl.scan.for_factories and built by pl.dag.Construct.  The oracle is
computed from the engine *description*: nodes, edges and closure at value,
state-vector, algorithm and task granularity.
'''

from . import common, aegen

LEVEL = 'exploration'


def trim(tag, n):
    return '.'.join(tag.split('.')[:n])


def walk(roots):
    '''(objects by tag, edges) reachable from roots, no recursion limit'''
    objs, edges, stack, seen = {}, set(), list(roots), set()
    while stack:
        n = stack.pop()
        objs.setdefault(n.tag, set()).add(id(n))
        if id(n) in seen:
            continue
        seen.add(id(n))
        for c in n:
            edges.add((n.tag, c.tag))
            stack.append(c)
    return objs, edges


def check_engine(ctx, desc):
    import dawgie.pl.dag

    eng = aegen.Engine(desc)
    facs = eng.load(common.scratch_root())
    rep = {'desc': desc}
    feats = []
    if any(a['fb'] for a in desc['algs']):
        feats.append('feedback')
    feats.append(desc['style'])
    feat = ','.join(feats)
    try:
        c = dawgie.pl.dag.Construct(facs)
    except Exception as e:  # noqa
        ctx.violation(f'C09/construct-raises/{type(e).__name__}/{feat}',
                      f'Construct raised {e!r}', rep)
        return None
    # reference at value level
    vedges = set()
    for a in eng.algs:
        mine = eng.values_of(a)
        me = eng.tag(a)
        for pv in eng.input_values(a):
            if trim(pv, 2) == me:
                continue
            for v in mine:
                vedges.add((pv, v))
    allvals = set()
    for a in eng.algs:
        allvals.update(eng.values_of(a))
    for level, roots, name in ((4, c.vt, 'value'), (3, c.svt, 'state-vector'),
                               (2, c.at, 'algorithm'), (1, c.tt, 'task')):
        objs, edges = walk(roots)
        want_nodes = {trim(v, level) for v in allvals}
        want_edges = {(trim(p, level), trim(ch, level)) for p, ch in vedges}
        want_edges = {e for e in want_edges if e[0] != e[1]}
        edges = {e for e in edges if e[0] != e[1]}
        if set(objs) != want_nodes:
            ctx.violation(f'C09/nodes/{name}/{feat}',
                          f'{name} tree has nodes {sorted(objs)}, declared {sorted(want_nodes)}', rep)
        dup = sorted(t for t, ids in objs.items() if len(ids) > 1)
        if dup:
            ctx.violation(f'C09/duplicate-node/{name}/{feat}',
                          f'more than one node object for {dup}', rep)
        if edges != want_edges:
            extra, missing = sorted(edges - want_edges), sorted(want_edges - edges)
            fbv = set()
            for a in eng.algs:
                fbv.update(eng.feedback_values(a))
            why = 'extra' if extra else 'missing'
            if extra and any(trim(p, level) in {trim(v, level) for v in fbv} for p, _c in extra):
                why = 'extra-from-feedback?'
            ctx.violation(f'C09/edges/{name}/{why}/{feat}',
                          f'{name} tree: extra edges {extra}, missing {missing}', rep)
    # algorithm level attributes
    objs, _e = walk(c.at)
    nodes = {}
    stack = list(c.at)
    while stack:
        n = stack.pop()
        if n.tag in nodes:
            continue
        nodes[n.tag] = n
        stack.extend(list(n))
    for a in eng.algs:
        tag = eng.tag(a)
        n = nodes.get(tag)
        if n is None:
            continue
        anc = set(n.get('ancestry') or ())
        if anc != eng.ancestry(a):
            ctx.violation(f'C09/ancestry/{feat}',
                          f'{tag}: ancestry {sorted(anc)}, closure {sorted(eng.ancestry(a))}', rep)
        par = {p.tag for p in (n.get('parents') or ())}
        if par != set(eng.parents(a)):
            ctx.violation(f'C09/parents/{feat}',
                          f'{tag}: parents {sorted(par)}, declared {eng.parents(a)}', rep)
    # feedback map
    for a in eng.algs:
        for v in eng.feedback_values(a):
            got = c.feedbacks.get(v)
            if got is None:
                ctx.violation(f'C09/feedback-unmapped/{feat}',
                              f'fed-back value {v} is not in Construct.feedbacks', rep)
            elif trim(got, 2) not in eng.fb_consumers(v):
                ctx.violation(f'C09/feedback-wrong-consumer/{feat}',
                              f'{v} mapped to {got}, consumers {eng.fb_consumers(v)}', rep)
    for v in c.feedbacks:
        if not eng.fb_consumers(v):
            ctx.violation(f'C09/feedback-spurious/{feat}', f'{v} in feedbacks but never declared', rep)
    return (len(eng.algs), len(vedges))


def work(args):
    tier, seed, shard, nshards, n = args
    from . import pipeworld

    pipeworld.install_seams()
    ctx = common.Ctx('C09', tier, seed, LEVEL)
    shapes = set()
    kw = {}
    if n == 4:
        kw = {'kinds': ('task', 'analysis'), 'patterns': (0, 1), 'share': (False,),
              'styles': ('legacy',)}
    for i, desc in enumerate(aegen.dag_engines(n, **kw)):
        if i % nshards != shard:
            continue
        ctx.count('engines')
        r = check_engine(ctx, desc)
        if r and r[1]:
            eng = aegen.Engine(desc)
            shapes.add((n, tuple(sorted((p, eng.tag(a)) for a in eng.algs for p in eng.parents(a))),
                        tuple(a['k'] for a in desc['algs'])))
        if i % 97 == 0:
            ctx.sample({'algs': [{k: a[k] for k in ('t', 'n', 'k', 'in', 'fb')} for a in desc['algs']],
                        'style': desc['style']})
    out = ctx.export()
    out['shapes'] = len(shapes)
    return out


def work_deep(args):
    tier, seed = args
    from . import pipeworld

    pipeworld.install_seams()
    ctx = common.Ctx('C09', tier, seed, LEVEL)
    for name, desc in aegen.deep_engines().items():
        for style in ('legacy', 'auto'):
            d = dict(desc)
            d['style'] = style
            ctx.count('engines')
            check_engine(ctx, d)
    # the same graphs under a base package with two components
    nested = dict(aegen.deep_engines())
    for name, desc in aegen.chain_engines().items():
        nested['chain:' + name] = {'algs': desc} if isinstance(desc, list) else desc
    for name, desc in nested.items():
        for style in ('legacy', 'auto'):
            d = dict(desc)
            d['style'] = style
            d['nested'] = True
            ctx.count('engines')
            check_engine(ctx, d)
    # self-registering packages that start with a class marked DAWGIE_IGNORE
    for name, desc in nested.items():
        for style in ('auto', 'custom'):
            for ign in ('template', 'abstract'):
                d = dict(desc)
                d['style'] = style
                d['ignored'] = ign
                ctx.count('engines')
                check_engine(ctx, d)
    # hand-written factories that hand out less than the package defines
    for name, desc in nested.items():
        d = dict(desc)
        d['style'] = 'custom'
        d['unlisted'] = True
        ctx.count('engines')
        check_engine(ctx, d)
    out = ctx.export()
    out['shapes'] = 2 * len(aegen.deep_engines()) + 7 * len(nested)
    return out


def run(ctx):
    for r in common.pmap(work_deep, [(ctx.tier, ctx.seed)]):
        ctx.merge(r)
        deep = r['shapes']
    sizes = [1, 2, 3] if ctx.quick() else [1, 2, 3, 4]
    jobs = []
    for n in sizes:
        nsh = 1 if n < 3 else (32 if n == 3 else 64)
        jobs += [(ctx.tier, ctx.seed, s, nsh, n) for s in range(nsh)]
    shapes = deep
    for r in common.pmap(work, jobs):
        ctx.merge(r)
        shapes += r['shapes']
    ctx.assumptions += ['self loops that trimming creates between two algorithms of one package are ignored',
                        'node level (a first-visit DFS depth used only for sorting) is not checked']
    cov = {
        'evaluations': ctx.counters.get('engines', 0),
        'distinct_nontrivial': shapes,
        'rule': 'every DAG on <=3 algorithms (thorough: 4) x kinds {task,analysis,regress}^n x 3 reference '
                'granularity patterns x package sharing x optional feedback reference x {legacy,auto} factory '
                'style; plus hand-picked deep shapes (chains of 5 and 7, mixed-kind chain, ladder); distinct_nontrivial = distinct (edge set, kind assignment) with at least one edge',
    }
    return common.finish(ctx, cov, exhaustive=True)


def replay(data):
    ctx = common.Ctx('C09', 'quick', 0, LEVEL)
    from . import pipeworld
    pipeworld.install_seams()
    check_engine(ctx, data['replay']['desc'])
    for sig, v in ctx.violations.items():
        print('!!', sig, '::', v['what'])
    print('VIOLATES' if ctx.violations else 'ok')
    return 1 if ctx.violations else 0
