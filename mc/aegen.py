'''Algorithm-engine generator.

An engine *description* is plain data (JSON-able):

  {'style': 'legacy' | 'auto',
   'algs': [ {'t': task/package name, 'n': algorithm name,
              'k': 'task' | 'analysis' | 'regress',
              'ver': [d,i,b],
              'svs': [ {'n': sv name, 'ver': [d,i,b],
                        'vals': [ {'n': value name, 'ver': [d,i,b]} ]} ],
              'in': [ [t, n, sv|None, val|None], ... ]   # inputs (ALG/SV/V ref)
              'fb': [ [t, n, sv, val|None], ... ]         # feedback refs
              'ev': [ {'boot': True} | {'dow': 0..6, 'time': [h,m,s]} |
                      {'dom': 1..31, 'time': ...} | {'day': [y,m,d], 'time': ...} ]
            } ],
   'offer': {task: [factory kinds]}   # optional: restrict offered factories
  }

The generator writes it as a real importable package
(<root>/<pkg>/<task>/__init__.py) that dawgie.pl.scan.for_factories loads, and
is also the oracle's source of truth: names, edges, closure, consumers.
'''

import hashlib
import importlib
import json
import os
import sys

KINDF = {'task': 'task', 'analysis': 'analysis', 'regress': 'regress'}
BASE = {'task': 'Algorithm', 'analysis': 'Analyzer', 'regress': 'Regression'}
DEPM = {'task': 'previous', 'analysis': 'traits', 'regress': 'variables'}


def ident(s):
    return ''.join(c if c.isalnum() else '_' for c in s)


def alg(t, n, k='task', inputs=(), svs=None, ver=(1, 0, 0), fb=(), ev=()):
    '''convenience constructor for an algorithm description'''
    if svs is None:
        svs = [{'n': 's', 'ver': [1, 0, 0], 'vals': [{'n': 'x', 'ver': [1, 0, 0]}]}]
    return {'t': t, 'n': n, 'k': k, 'ver': list(ver),
            'svs': svs, 'in': [list(i) for i in inputs],
            'fb': [list(f) for f in fb], 'ev': [dict(e) for e in ev]}


def sv(n, vals=('x',), ver=(1, 0, 0), vver=(1, 0, 0)):
    return {'n': n, 'ver': list(ver),
            'vals': [{'n': v, 'ver': list(vver)} for v in vals]}


class Engine:
    def __init__(self, desc):
        self.desc = desc
        self.style = desc.get('style', 'legacy')
        self.algs = desc['algs']
        self.key = hashlib.sha1(
            json.dumps(desc, sort_keys=True).encode()).hexdigest()[:12]
        self.pkg = 'vae_' + self.key
        if desc.get('nested'):
            # a base package with more than one component (legal: context maps
            # the dots to path separators)
            self.pkg = 'vnp_' + self.key + '.ae'
        self.by = {(a['t'], a['n']): a for a in self.algs}
        self.tasks = []
        for a in self.algs:
            if a['t'] not in self.tasks:
                self.tasks.append(a['t'])
        for t in desc.get('foreign_events', {}):
            if t not in self.tasks:
                self.tasks.append(t)

    # ------------------------------------------------------------ reference
    def tag(self, a):
        return f"{a['t']}.{a['n']}"

    def tags(self):
        return [self.tag(a) for a in self.algs]

    def values_of(self, a, svn=None, vn=None):
        out = []
        for s in a['svs']:
            if svn is not None and s['n'] != svn:
                continue
            for v in s['vals']:
                if vn is not None and v['n'] != vn:
                    continue
                out.append(f"{a['t']}.{a['n']}.{s['n']}.{v['n']}")
        return out

    def expand(self, ref):
        t, n, svn, vn = ref
        return self.values_of(self.by[(t, n)], svn, vn)

    def input_values(self, a):
        out = []
        for r in a['in']:
            out.extend(self.expand(r))
        return out

    def feedback_values(self, a):
        out = []
        for r in a['fb']:
            out.extend(self.expand(r))
        return out

    def parents(self, a):
        '''tags of algorithms a declares as input (ordering edges only)'''
        return sorted({f'{r[0]}.{r[1]}' for r in a['in']} - {self.tag(a)})

    def children(self, tag):
        return sorted(self.tag(a) for a in self.algs if tag in self.parents(a))

    def ancestry(self, a):
        seen, stack = set(), list(self.parents(a))
        while stack:
            p = stack.pop()
            if p in seen:
                continue
            seen.add(p)
            t, n = p.split('.')
            stack.extend(self.parents(self.by[(t, n)]))
        return seen

    def descendants(self, tag):
        seen, stack = set(), list(self.children(tag))
        while stack:
            c = stack.pop()
            if c in seen:
                continue
            seen.add(c)
            stack.extend(self.children(c))
        return seen

    def alg_of(self, tag):
        t, n = tag.split('.')
        return self.by[(t, n)]

    def kind(self, tag):
        return self.alg_of(tag)['k']

    def consumers(self, value_name):
        '''tags of algorithms declaring value_name as (ordering) input'''
        return sorted(self.tag(a) for a in self.algs
                      if value_name in self.input_values(a)
                      and self.tag(a) != '.'.join(value_name.split('.')[:2]))

    def fb_consumers(self, value_name):
        return sorted(self.tag(a) for a in self.algs
                      if value_name in self.feedback_values(a))

    def roots(self):
        return [self.tag(a) for a in self.algs if not a['in']]

    def offered(self, task):
        kinds = []
        for a in self.algs:
            if a['t'] == task and a['k'] not in kinds:
                kinds.append(a['k'])
        if any(a['ev'] for a in self.algs if a['t'] == task) or \
                self.desc.get('foreign_events', {}).get(task):
            kinds.append('events')
        if 'offer' in self.desc and task in self.desc['offer']:
            kinds = list(self.desc['offer'][task])
        return kinds

    # ------------------------------------------------------------ code gen
    def _moment(self, e, fac, impl, brk=None):
        bw = (brk or {}).get('what')
        if bw == 'moment-two':
            return (f"dawgie.EVENT(dawgie.ALG_REF({fac}, {impl}), "
                    "dawgie.MOMENT(True, None, None, 1, datetime.time(1, 2, 3)))")
        if bw == 'moment-dom-str':
            return (f"dawgie.EVENT(dawgie.ALG_REF({fac}, {impl}), "
                    "dawgie.MOMENT(None, None, '3', None, datetime.time(1, 2, 3)))")
        if bw == 'moment-no-time':
            return (f"dawgie.EVENT(dawgie.ALG_REF({fac}, {impl}), "
                    "dawgie.MOMENT(None, None, None, 2, None))")
        if bw == 'moment-day-str':
            return (f"dawgie.EVENT(dawgie.ALG_REF({fac}, {impl}), "
                    "dawgie.MOMENT(None, '2024-01-01', None, None, datetime.time(1, 2, 3)))")
        args = []
        if e.get('boot'):
            args.append('boot=True')
        if 'dow' in e:
            args.append(f"dow={e['dow']}")
        if 'dom' in e:
            args.append(f"dom={e['dom']}")
        if 'day' in e:
            args.append('day=datetime.date(%d,%d,%d)' % tuple(e['day']))
        if 'time' in e:
            args.append('time=datetime.time(%d,%d,%d)' % tuple(e['time']))
        return f"dawgie.schedule({fac}, {impl}, {', '.join(args)})"

    def source(self, task):
        brk = self.desc.get('break') or {}
        bw = brk.get('what') if brk.get('t', task) == task else None

        def hit(what, n=None, f=None):
            if bw != what:
                return False
            if n is not None and brk.get('n') != n:
                return False
            if f is not None and brk.get('f') != f:
                return False
            return True

        L = []
        w = L.append
        w('import datetime')
        w('import dawgie')
        w('import dawgie.base')
        w('import mc.aert as rt')
        w(f'PKG = {self.pkg!r}')
        w(f'TASK = {task!r}')
        w('')
        mine = [a for a in self.algs if a['t'] == task]
        ign = self.desc.get('ignored')
        if ign and self.style != 'legacy' and mine:
            # a class the scanner is told to ignore, defined before every real
            # element of the package: a complete template, or an abstract base
            # whose constructor refuses to run
            w('class A_ignored(dawgie.%s):' % BASE[mine[0]['k']])
            w('    DAWGIE_IGNORE = True')
            w('    def __init__(self):')
            if ign == 'abstract':
                w("        raise NotImplementedError('abstract base of this package')")
            else:
                w('        dawgie.%s.__init__(self)' % BASE[mine[0]['k']])
                w('        self._version_ = dawgie.VERSION(1, 0, 0)')
            w('    def name(self):')
            w("        return 'ignoredtemplate'")
            w('    def %s(self):' % DEPM[mine[0]['k']])
            w('        return []')
            w('    def feedback(self):')
            w('        return []')
            w('    def state_vectors(self):')
            w('        return []')
            w('    def run(self, *args, **kwds):')
            w('        return None')
            w('')
        if self.desc.get('unlisted') and self.style == 'custom' and mine:
            # a complete, self-registering element that the package's own
            # hand-written factory does not hand out (a draft): not part of the engine
            w('class A_unlisted(dawgie.%s):' % BASE[mine[0]['k']])
            w('    def __init__(self):')
            w('        dawgie.%s.__init__(self)' % BASE[mine[0]['k']])
            w('        self._version_ = dawgie.VERSION(1, 0, 0)')
            w('    def name(self):')
            w("        return 'unlisted'")
            w('    def %s(self):' % DEPM[mine[0]['k']])
            w('        return []')
            w('    def feedback(self):')
            w('        return []')
            w('    def state_vectors(self):')
            w('        return [SV_%s_%s()]' % (ident(mine[0]['n']), ident(mine[0]['svs'][0]['n'])))
            w('    def run(self, *args, **kwds):')
            w('        return None')
            w('')
        for a in mine:
            an = ident(a['n'])
            for s in a['svs']:
                sn = ident(s['n'])
                for v in s['vals']:
                    vn = ident(v['n'])
                    w(f'class V_{an}_{sn}_{vn}(dawgie.Value):')
                    if hit('val-ctor-arg', a['n']):
                        # pickles, but can never be loaded again: Value.__setstate__
                        # rebuilds the object with self.__class__()
                        w('    def __init__(self, content):')
                    else:
                        w('    def __init__(self, content=None):')
                    w('        self.content = content')
                    if hit('unpicklable', a['n']):
                        w('        self.hook = lambda: 0')
                    w('        self._version_ = dawgie.VERSION(%d, %d, %d)' % tuple(v['ver']))
                    w('    def features(self):')
                    w('        return []')
                    w('    def __eq__(self, other):')
                    w('        return type(other) is type(self) and other.content == self.content')
                    w('    __hash__ = None')
                    w('    def __repr__(self):')
                    w("        return 'V(%r)' % (self.content,)")
                    w('')
                if hit('sv-base', a['n']):
                    w(f'class SV_{an}_{sn}(dict):')
                    w('    def __init__(self):')
                    w('        dict.__init__(self)')
                else:
                    w(f'class SV_{an}_{sn}(dawgie.StateVector):')
                    w('    def __init__(self):')
                    w('        dawgie.StateVector.__init__(self)')
                w('        self._version_ = dawgie.VERSION(%d, %d, %d)' % tuple(s['ver']))
                if not hit('sv-empty', a['n']):
                    for v in s['vals']:
                        key = v['n'] + ('.q' if hit('dot-val', a['n']) else '')
                        val = 'object()' if hit('val-base', a['n']) else f"V_{an}_{sn}_{ident(v['n'])}()"
                        if hit('val-ctor-arg', a['n']):
                            val = val[:-2] + "('c')"
                        w(f"        self[{key!r}] = {val}")
                if not hit('sv-no-name', a['n']):
                    w('    def name(self):')
                    w(f"        return {(s['n'] + ('.q' if hit('dot-sv', a['n']) else ''))!r}")
                w('    def view(self, caller, visitor):')
                w('        return')
                w('')
            base = BASE[a['k']]
            cls_start = len(L)
            if hit('alg-base', a['n']):
                w(f'class A_{an}:')
                w('    def __init__(self):')
            else:
                w(f'class A_{an}(dawgie.{base}):')
                if self.style in ('auto', 'custom') and a['ev']:
                    evs = ', '.join(
                        self._moment(e, 'None', 'None', brk if hit(brk.get('what'), a['n']) else None)
                        for e in a['ev'])
                    w(f'    DAWGIE_SCHEDULE = [{evs}]')
                w('    def __init__(self):')
                w(f'        dawgie.{base}.__init__(self)')
            w('        self._version_ = dawgie.VERSION(%d, %d, %d)' % tuple(a['ver']))
            svl = ', '.join(f"SV_{an}_{ident(s['n'])}()" for s in a['svs'])
            if hit('no-sv', a['n']):
                svl = ''
            w(f'        self._svs = [{svl}]')
            w('        self._in = None')
            w('        self._fb = None')
            if not hit('no-name', a['n']):
                w('    def name(self):')
                w(f"        return {(a['n'] + ('.q' if hit('dot-alg', a['n']) else ''))!r}")
            if not hit('no-deps', a['n']):
                w(f'    def {DEPM[a["k"]]}(self):')
                w('        if self._in is None:')
                refbreak = bw if (bw or '').startswith('ref-') and brk.get('n') == a['n'] else None
                w(f"            self._in = rt.break_refs(rt.build_refs(PKG, {a['in']!r}, self), {refbreak!r})")
                w('        return self._in')
            w('    def feedback(self):')
            w('        if self._fb is None:')
            w(f"            self._fb = rt.build_refs(PKG, {a['fb']!r}, self)")
            w('        return self._fb')
            w('    def state_vectors(self):')
            w('        return self._svs')
            if a.get('where'):
                w('    def where(self):')
                w(f"        return dawgie.Distribution.{a['where']}")
            if hit('alg-base', a['n']):
                w('    def sv_as_dict(self):')
                w('        return {sv.name(): sv for sv in self._svs}')
            if a['k'] == 'task':
                w('    def run(self, ds, ps):')
                w(f"        rt.run(PKG, TASK, self, 'task', ds)")
            elif a['k'] == 'analysis':
                w('    def run(self, aspects):')
                w(f"        rt.run(PKG, TASK, self, 'analysis', aspects)")
            else:
                w('    def run(self, ps, timeline):')
                w(f"        rt.run(PKG, TASK, self, 'regress', timeline)")
            if self.desc.get('nest_same_name') and self.style != 'legacy':
                # every element is a class called Impl nested in its own enclosing
                # class: same __name__, different __qualname__
                block = L[cls_start:]
                del L[cls_start:]
                w(f'class Box_{an}:')
                for line in block:
                    line = line.replace(f'class A_{an}(', 'class Impl(', 1)
                    w(('    ' + line) if line else line)
                w(f'A_{an} = Box_{an}.Impl')
            w('')
        if self.style == 'custom':
            # current (self-registering) style, but the package brings its own
            # hand-written factories built on the dawgie.base bots: the
            # documented way to customise the factory/bot pattern
            offered = self.offered(task)
            for k in ('task', 'analysis', 'regress'):
                if k not in offered:
                    continue
                members = ', '.join(f"A_{ident(a['n'])}" for a in mine if a['k'] == k)   # classes
                if k == 'task':
                    w("def task(prefix: str, ps_hint: int = 0, runid: int = -1, target: str = '__none__'):")
                    w(f'    return dawgie.base.Task(prefix, ps_hint, runid, target, [{members}])')
                elif k == 'analysis':
                    w('def analysis(prefix: str, ps_hint: int = 0, runid: int = -1):')
                    w(f'    return dawgie.base.Analysis(prefix, ps_hint, runid, [{members}])')
                else:
                    w("def regress(prefix: str, ps_hint: int = 0, target: str = '__none__'):")
                    w(f'    return dawgie.base.Regress(prefix, ps_hint, target, [{members}])')
                w('')
        if self.style == 'legacy':
            offered = self.offered(task)
            botbase = {'task': 'Task', 'analysis': 'Analysis', 'regress': 'Regress'}
            for k in ('task', 'analysis', 'regress'):
                if k not in offered:
                    continue
                members = ', '.join(f"A_{ident(a['n'])}()" for a in mine if a['k'] == k)
                if hit('bot-base', f=k):
                    w(f'class Bot_{k}:')
                    w('    def __init__(self, *args):')
                    w('        self.args = args')
                    w('    def routines(self):')
                    w(f'        return [{members}]')
                else:
                    w(f'class Bot_{k}(dawgie.{botbase[k]}):')
                w('    def list(self):')
                w(f'        return [{members}]')
                w('')
            sig = {
                'task': ("prefix: str, ps_hint: int = 0, runid: int = -1, target: str = '__none__'",
                         'prefix, ps_hint, runid, target'),
                'analysis': ('prefix: str, ps_hint: int = 0, runid: int = -1',
                             'prefix, ps_hint, runid'),
                'regress': ("prefix: str, ps_hint: int = 0, target: str = '__none__'",
                            'prefix, ps_hint, target'),
            }
            for k in ('task', 'analysis', 'regress'):
                if k not in offered:
                    continue
                params, call = sig[k]
                if hit('fac-arity', f=k):
                    params += ', extra: int = 0'
                if hit('fac-default', f=k):
                    params = params.replace('ps_hint: int = 0', 'ps_hint: int = 1')
                if hit('fac-annot', f=k):
                    params = params.replace('prefix: str', 'prefix')
                w(f'def {k}({params}):')
                w(f'    return Bot_{k}({call})')
                w('')
            if 'events' in offered:
                w('def events():')
                w('    return [')
                for a in mine:
                    for e in a['ev']:
                        w('        ' + self._moment(
                            e, KINDF[a['k']], f"A_{ident(a['n'])}()",
                            brk if (bw or '').startswith('moment-') and brk.get('n') == a['n'] else None) + ',')
                for spec in self.desc.get('foreign_events', {}).get(task, []):
                    ft, fn, fk, e = spec
                    w(f'        ' + self._moment(
                        e, f"__import__('importlib').import_module('{self.pkg}.{ft}').{fk}",
                        f"__import__('importlib').import_module('{self.pkg}.{ft}').A_{ident(fn)}()") + ',')
                w('    ]')
                w('')
        return '\n'.join(L) + '\n'

    def write(self, root):
        base = os.path.join(root, *self.pkg.split('.'))
        if os.path.isdir(base):
            return base
        os.makedirs(base)
        d = root
        for part in self.pkg.split('.'):
            d = os.path.join(d, part)
            with open(os.path.join(d, '__init__.py'), 'w', encoding='utf-8') as f:
                f.write('')
        for t in self.tasks:
            os.makedirs(os.path.join(base, t))
            with open(os.path.join(base, t, '__init__.py'), 'w', encoding='utf-8') as f:
                f.write(self.source(t))
        return base

    def load(self, root):
        '''write + scan with the real dawgie.pl.scan; returns factories'''
        import dawgie.context
        import dawgie.pl.scan

        base = self.write(root)
        if root not in sys.path:
            sys.path.insert(0, root)
        importlib.invalidate_caches()
        dawgie.context.ae_base_path = base
        dawgie.context.ae_base_package = self.pkg
        dawgie.pl.scan.reset(self.pkg)
        return dawgie.pl.scan.for_factories(base, self.pkg)


# ---------------------------------------------------------------- families


def chain_engines():
    '''a few hand-picked canonical engines used by several harnesses'''
    A = alg
    out = {}
    out['single'] = [A('ta', 'a')]
    out['chain2'] = [A('ta', 'a'), A('ta', 'b', inputs=[('ta', 'a', None, None)])]
    out['chain3'] = out['chain2'] + [A('tb', 'c', inputs=[('ta', 'b', 's', 'x')])]
    out['fork'] = [A('ta', 'a'), A('ta', 'b', inputs=[('ta', 'a', None, None)]),
                   A('tb', 'c', inputs=[('ta', 'a', 's', None)])]
    out['join'] = [A('ta', 'a'), A('tb', 'b'),
                   A('tc', 'c', inputs=[('ta', 'a', None, None), ('tb', 'b', None, None)])]
    out['pair'] = [A('ta', 'a'), A('tb', 'b')]
    # placement: an algorithm that asks for the cloud and one whose history
    # hint (farm.insights) says cloud, on a farm without a cloud agency
    out['placement'] = [dict(A('ta', 'a'), where='cloud'),
                        dict(A('ta', 'b', inputs=[('ta', 'a', None, None)]), where='auto')]
    out['task-analysis'] = [A('ta', 'a'),
                            A('tz', 'z', 'analysis', inputs=[('ta', 'a', None, None)])]
    out['task-analysis-task'] = out['task-analysis'] + [
        A('tb', 'c', inputs=[('tz', 'z', None, None)])]
    out['analysis-chain'] = out['task-analysis'] + [
        A('ty', 'y', 'analysis', inputs=[('tz', 'z', 's', None)])]
    out['regress-leaf'] = [A('ta', 'a'),
                           A('tr', 'r', 'regress', inputs=[('ta', 'a', None, None)])]
    # an input shared by an analyzer and a regression (the trees are built
    # analysis, regression, task: the second reader meets an existing node)
    out['shared-input'] = [A('ta', 'a'), A('tc', 'c'),
                           A('tz', 'z', 'analysis', inputs=[('ta', 'a', 's', 'x')]),
                           A('tr', 'r', 'regress', inputs=[('ta', 'a', 's', 'x'), ('tc', 'c', 's', 'x')])]
    # the same algorithm name in two tasks, one reading the other
    out['same-name-two-tasks'] = [A('ta', 'fit'), A('tb', 'fit', inputs=[('ta', 'fit', 's', 'x')]),
                                  A('tc', 'report', inputs=[('tb', 'fit', None, None)])]
    # names that are prefixes of one another, in one package
    out['chain3-prefix'] = [A('ta', 'a'), A('ta', 'ab', inputs=[('ta', 'a', None, None)]),
                            A('ta', 'abc', inputs=[('ta', 'ab', 's', 'x')])]
    out['diamond'] = [A('ta', 'a'), A('tb', 'b', inputs=[('ta', 'a', None, None)]),
                      A('tc', 'c', inputs=[('ta', 'a', None, None)]),
                      A('td', 'd', inputs=[('tb', 'b', None, None), ('tc', 'c', None, None)])]
    return {k: {'style': 'legacy', 'algs': v} for k, v in out.items()}


def deep_engines():
    '''deeper shapes than the exhaustive families reach (closure depth)'''
    A = alg
    names = 'abcdefg'
    out = {}
    for n in (5, 7):
        algs = [A('t' + names[0], names[0])]
        for i in range(1, n):
            algs.append(A('t' + names[i], names[i],
                          inputs=[('t' + names[i - 1], names[i - 1], None, None)]))
        out[f'chain{n}'] = algs
    # chain with an analysis in the middle and value-level references
    out['chain5-mixed'] = [
        A('ta', 'a'), A('tb', 'b', inputs=[('ta', 'a', 's', 'x')]),
        A('tz', 'z', 'analysis', inputs=[('tb', 'b', 's', None)]),
        A('td', 'd', inputs=[('tz', 'z', None, None)]),
        A('tr', 'r', 'regress', inputs=[('td', 'd', 's', 'x')])]
    # ladder: two chains with cross links
    out['ladder'] = [
        A('ta', 'a'), A('tb', 'b'),
        A('tc', 'c', inputs=[('ta', 'a', None, None)]),
        A('td', 'd', inputs=[('tb', 'b', None, None), ('tc', 'c', None, None)]),
        A('te', 'e', inputs=[('td', 'd', None, None)]),
        A('tf', 'f', inputs=[('te', 'e', None, None), ('ta', 'a', None, None)])]
    return {k: {'style': 'legacy', 'algs': v} for k, v in out.items()}


def dag_engines(n, kinds=('task', 'analysis', 'regress'), styles=('legacy', 'auto'),
                share=(False, True, 'prefix'), feedback=(False, True), patterns=(0, 1, 2)):
    '''every DAG on n ordered algorithms (edge i->j only for i<j) x kind
    assignment x reference-granularity pattern x package sharing x one
    optional feedback reference x factory style.  Each algorithm has two
    state vectors (s: x,y ; sx: x) so that prefixes collide.'''
    import itertools

    pairs = [(i, j) for i in range(n) for j in range(i + 1, n)]
    names = 'abcd'
    for mask in range(1 << len(pairs)):
        edges = [p for k, p in enumerate(pairs) if mask >> k & 1]
        for ks in itertools.product(kinds, repeat=n):
            for pat in patterns:
                for sh in share:
                    if sh is True and (n < 2 or ks[0] != ks[1]):
                        continue
                    if sh == 'prefix' and n < 2:
                        continue
                    for fb in feedback:
                        if fb and not edges:
                            continue
                        for style in styles:
                            if sh == 'prefix':
                                # one package, names a, ab, abc, abcd
                                task_of = ['ta'] * n
                                names = ['abcd'[:i + 1] for i in range(n)]
                            else:
                                names = 'abcd'
                                task_of = [('ta' if sh and i < 2 else f't{names[i]}') for i in range(n)]
                            algs = []
                            for j in range(n):
                                ins = []
                                for k, (i, jj) in enumerate(edges):
                                    if jj != j:
                                        continue
                                    g = (k + pat) % 3
                                    ref = [task_of[i], names[i], None, None]
                                    if g >= 1:
                                        ref[2] = 's'
                                    if g == 2:
                                        ref[3] = 'y'
                                    ins.append(ref)
                                fbs = []
                                if fb and edges and j == edges[0][0]:
                                    jj = edges[0][1]
                                    fbs.append([task_of[jj], names[jj], 'sx', 'x'])
                                algs.append(alg(task_of[j], names[j], ks[j], inputs=ins,
                                                svs=[sv('s', ('x', 'y')), sv('sx', ('x',))],
                                                fb=fbs))
                            yield {'style': style, 'algs': algs}
