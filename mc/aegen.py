'''Algorithm-engine generator.

An engine *description* is plain data (JSON-able):

  {'style': 'legacy' | 'auto',
   'algs': [ {'t': task/package name, 'n': algorithm name,
              'k': 'task' | 'analysis' | 'regress',
              'ver': [d,i,b],
              'svs': [ {'n': sv name, 'ver': [d,i,b],
                        'vals': [ {'n': value name, 'ver': [d,i,b]} ]} ],
              'in': [ [t, n, sv|None, val|None], ... ]   # inputs (ALG/SV/V ref)
              'fb': [ [t, n, sv, val|None], ... ]         # feedback refs
              'ev': [ {'boot': True} | {'dow': 0..6, 'time': [h,m,s]} |
                      {'dom': 1..31, 'time': ...} | {'day': [y,m,d], 'time': ...} ]
            } ],
   'offer': {task: [factory kinds]}   # optional: restrict offered factories
  }

The generator writes it as a real importable package
(<root>/<pkg>/<task>/__init__.py) that dawgie.pl.scan.for_factories loads, and
is also the oracle's source of truth: names, edges, closure, consumers.
'''

import hashlib
import importlib
import json
import os
import sys

KINDF = {'task': 'task', 'analysis': 'analysis', 'regress': 'regress'}
BASE = {'task': 'Algorithm', 'analysis': 'Analyzer', 'regress': 'Regression'}
DEPM = {'task': 'previous', 'analysis': 'traits', 'regress': 'variables'}


def ident(s):
    return ''.join(c if c.isalnum() else '_' for c in s)


def alg(t, n, k='task', inputs=(), svs=None, ver=(1, 0, 0), fb=(), ev=()):
    '''convenience constructor for an algorithm description'''
    if svs is None:
        svs = [{'n': 's', 'ver': [1, 0, 0], 'vals': [{'n': 'x', 'ver': [1, 0, 0]}]}]
    return {'t': t, 'n': n, 'k': k, 'ver': list(ver),
            'svs': svs, 'in': [list(i) for i in inputs],
            'fb': [list(f) for f in fb], 'ev': [dict(e) for e in ev]}


def sv(n, vals=('x',), ver=(1, 0, 0), vver=(1, 0, 0)):
    return {'n': n, 'ver': list(ver),
            'vals': [{'n': v, 'ver': list(vver)} for v in vals]}


class Engine:
    def __init__(self, desc):
        self.desc = desc
        self.style = desc.get('style', 'legacy')
        self.algs = desc['algs']
        self.key = hashlib.sha1(
            json.dumps(desc, sort_keys=True).encode()).hexdigest()[:12]
        self.pkg = 'vae_' + self.key
        self.by = {(a['t'], a['n']): a for a in self.algs}
        self.tasks = []
        for a in self.algs:
            if a['t'] not in self.tasks:
                self.tasks.append(a['t'])

    # ------------------------------------------------------------ reference
    def tag(self, a):
        return f"{a['t']}.{a['n']}"

    def tags(self):
        return [self.tag(a) for a in self.algs]

    def values_of(self, a, svn=None, vn=None):
        out = []
        for s in a['svs']:
            if svn is not None and s['n'] != svn:
                continue
            for v in s['vals']:
                if vn is not None and v['n'] != vn:
                    continue
                out.append(f"{a['t']}.{a['n']}.{s['n']}.{v['n']}")
        return out

    def expand(self, ref):
        t, n, svn, vn = ref
        return self.values_of(self.by[(t, n)], svn, vn)

    def input_values(self, a):
        out = []
        for r in a['in']:
            out.extend(self.expand(r))
        return out

    def feedback_values(self, a):
        out = []
        for r in a['fb']:
            out.extend(self.expand(r))
        return out

    def parents(self, a):
        '''tags of algorithms a declares as input (ordering edges only)'''
        return sorted({f'{r[0]}.{r[1]}' for r in a['in']} - {self.tag(a)})

    def children(self, tag):
        return sorted(self.tag(a) for a in self.algs if tag in self.parents(a))

    def ancestry(self, a):
        seen, stack = set(), list(self.parents(a))
        while stack:
            p = stack.pop()
            if p in seen:
                continue
            seen.add(p)
            t, n = p.split('.')
            stack.extend(self.parents(self.by[(t, n)]))
        return seen

    def descendants(self, tag):
        seen, stack = set(), list(self.children(tag))
        while stack:
            c = stack.pop()
            if c in seen:
                continue
            seen.add(c)
            stack.extend(self.children(c))
        return seen

    def alg_of(self, tag):
        t, n = tag.split('.')
        return self.by[(t, n)]

    def kind(self, tag):
        return self.alg_of(tag)['k']

    def consumers(self, value_name):
        '''tags of algorithms declaring value_name as (ordering) input'''
        return sorted(self.tag(a) for a in self.algs
                      if value_name in self.input_values(a)
                      and self.tag(a) != '.'.join(value_name.split('.')[:2]))

    def fb_consumers(self, value_name):
        return sorted(self.tag(a) for a in self.algs
                      if value_name in self.feedback_values(a))

    def roots(self):
        return [self.tag(a) for a in self.algs if not a['in']]

    def offered(self, task):
        kinds = []
        for a in self.algs:
            if a['t'] == task and a['k'] not in kinds:
                kinds.append(a['k'])
        if any(a['ev'] for a in self.algs if a['t'] == task):
            kinds.append('events')
        if 'offer' in self.desc and task in self.desc['offer']:
            kinds = list(self.desc['offer'][task])
        return kinds

    # ------------------------------------------------------------ code gen
    def _moment(self, e, fac, impl):
        args = []
        if e.get('boot'):
            args.append('boot=True')
        if 'dow' in e:
            args.append(f"dow={e['dow']}")
        if 'dom' in e:
            args.append(f"dom={e['dom']}")
        if 'day' in e:
            args.append('day=datetime.date(%d,%d,%d)' % tuple(e['day']))
        if 'time' in e:
            args.append('time=datetime.time(%d,%d,%d)' % tuple(e['time']))
        return f"dawgie.schedule({fac}, {impl}, {', '.join(args)})"

    def source(self, task):
        L = []
        w = L.append
        w('import datetime')
        w('import dawgie')
        w('import dawgie.base')
        w('import mc.aert as rt')
        w(f'PKG = {self.pkg!r}')
        w(f'TASK = {task!r}')
        w('')
        mine = [a for a in self.algs if a['t'] == task]
        for a in mine:
            an = ident(a['n'])
            for s in a['svs']:
                sn = ident(s['n'])
                for v in s['vals']:
                    vn = ident(v['n'])
                    w(f'class V_{an}_{sn}_{vn}(dawgie.Value):')
                    w('    def __init__(self, content=None):')
                    w('        self.content = content')
                    w('        self._version_ = dawgie.VERSION(%d, %d, %d)' % tuple(v['ver']))
                    w('    def features(self):')
                    w('        return []')
                    w('    def __eq__(self, other):')
                    w('        return type(other) is type(self) and other.content == self.content')
                    w('    __hash__ = None')
                    w('    def __repr__(self):')
                    w("        return 'V(%r)' % (self.content,)")
                    w('')
                w(f'class SV_{an}_{sn}(dawgie.StateVector):')
                w('    def __init__(self):')
                w('        dawgie.StateVector.__init__(self)')
                w('        self._version_ = dawgie.VERSION(%d, %d, %d)' % tuple(s['ver']))
                for v in s['vals']:
                    w(f"        self[{v['n']!r}] = V_{an}_{sn}_{ident(v['n'])}()")
                w('    def name(self):')
                w(f"        return {s['n']!r}")
                w('    def view(self, caller, visitor):')
                w('        return')
                w('')
            base = BASE[a['k']]
            w(f'class A_{an}(dawgie.{base}):')
            if self.style == 'auto' and a['ev']:
                evs = ', '.join(
                    self._moment(e, 'None', 'None') for e in a['ev'])
                w(f'    DAWGIE_SCHEDULE = [{evs}]')
            w('    def __init__(self):')
            w(f'        dawgie.{base}.__init__(self)')
            w('        self._version_ = dawgie.VERSION(%d, %d, %d)' % tuple(a['ver']))
            svl = ', '.join(f"SV_{an}_{ident(s['n'])}()" for s in a['svs'])
            w(f'        self._svs = [{svl}]')
            w('        self._in = None')
            w('        self._fb = None')
            w('    def name(self):')
            w(f"        return {a['n']!r}")
            w(f'    def {DEPM[a["k"]]}(self):')
            w('        if self._in is None:')
            w(f"            self._in = rt.build_refs(PKG, {a['in']!r}, self)")
            w('        return self._in')
            w('    def feedback(self):')
            w('        if self._fb is None:')
            w(f"            self._fb = rt.build_refs(PKG, {a['fb']!r}, self)")
            w('        return self._fb')
            w('    def state_vectors(self):')
            w('        return self._svs')
            if a['k'] == 'task':
                w('    def run(self, ds, ps):')
                w(f"        rt.run(PKG, TASK, self, 'task', ds)")
            elif a['k'] == 'analysis':
                w('    def run(self, aspects):')
                w(f"        rt.run(PKG, TASK, self, 'analysis', aspects)")
            else:
                w('    def run(self, ps, timeline):')
                w(f"        rt.run(PKG, TASK, self, 'regress', timeline)")
            w('')
        if self.style == 'legacy':
            offered = self.offered(task)
            botbase = {'task': 'Task', 'analysis': 'Analysis', 'regress': 'Regress'}
            for k in ('task', 'analysis', 'regress'):
                if k not in offered:
                    continue
                members = ', '.join(f"A_{ident(a['n'])}()" for a in mine if a['k'] == k)
                w(f'class Bot_{k}(dawgie.{botbase[k]}):')
                w('    def list(self):')
                w(f'        return [{members}]')
                w('')
            if 'task' in offered:
                w("def task(prefix, ps_hint=0, runid=-1, target='__none__'):")
                w('    return Bot_task(prefix, ps_hint, runid, target)')
                w('')
            if 'analysis' in offered:
                w('def analysis(prefix, ps_hint=0, runid=-1):')
                w('    return Bot_analysis(prefix, ps_hint, runid)')
                w('')
            if 'regress' in offered:
                w("def regress(prefix, ps_hint=0, target='__none__'):")
                w('    return Bot_regress(prefix, ps_hint, target)')
                w('')
            if 'events' in offered:
                w('def events():')
                w('    return [')
                for a in mine:
                    for e in a['ev']:
                        w('        ' + self._moment(
                            e, KINDF[a['k']], f"A_{ident(a['n'])}()") + ',')
                w('    ]')
                w('')
        return '\n'.join(L) + '\n'

    def write(self, root):
        base = os.path.join(root, self.pkg)
        if os.path.isdir(base):
            return base
        os.makedirs(base)
        with open(os.path.join(base, '__init__.py'), 'w', encoding='utf-8') as f:
            f.write('')
        for t in self.tasks:
            os.makedirs(os.path.join(base, t))
            with open(os.path.join(base, t, '__init__.py'), 'w', encoding='utf-8') as f:
                f.write(self.source(t))
        return base

    def load(self, root):
        '''write + scan with the real dawgie.pl.scan; returns factories'''
        import dawgie.context
        import dawgie.pl.scan

        base = self.write(root)
        if root not in sys.path:
            sys.path.insert(0, root)
        importlib.invalidate_caches()
        dawgie.context.ae_base_path = base
        dawgie.context.ae_base_package = self.pkg
        dawgie.pl.scan.reset(self.pkg)
        return dawgie.pl.scan.for_factories(base, self.pkg)


# ---------------------------------------------------------------- families


def chain_engines():
    '''a few hand-picked canonical engines used by several harnesses'''
    A = alg
    out = {}
    out['single'] = [A('ta', 'a')]
    out['chain2'] = [A('ta', 'a'), A('ta', 'b', inputs=[('ta', 'a', None, None)])]
    out['chain3'] = out['chain2'] + [A('tb', 'c', inputs=[('ta', 'b', 's', 'x')])]
    out['fork'] = [A('ta', 'a'), A('ta', 'b', inputs=[('ta', 'a', None, None)]),
                   A('tb', 'c', inputs=[('ta', 'a', 's', None)])]
    out['join'] = [A('ta', 'a'), A('tb', 'b'),
                   A('tc', 'c', inputs=[('ta', 'a', None, None), ('tb', 'b', None, None)])]
    out['pair'] = [A('ta', 'a'), A('tb', 'b')]
    out['task-analysis'] = [A('ta', 'a'),
                            A('tz', 'z', 'analysis', inputs=[('ta', 'a', None, None)])]
    out['task-analysis-task'] = out['task-analysis'] + [
        A('tb', 'c', inputs=[('tz', 'z', None, None)])]
    out['regress-leaf'] = [A('ta', 'a'),
                           A('tr', 'r', 'regress', inputs=[('ta', 'a', None, None)])]
    out['diamond'] = [A('ta', 'a'), A('tb', 'b', inputs=[('ta', 'a', None, None)]),
                      A('tc', 'c', inputs=[('ta', 'a', None, None)]),
                      A('td', 'd', inputs=[('tb', 'b', None, None), ('tc', 'c', None, None)])]
    return {k: {'style': 'legacy', 'algs': v} for k, v in out.items()}
