'''C14 - message streams are fragmentation-proof and gated by the handshake.

For each channel (farm.Hand, db comms.Worker, logger.LogSink), with and
without the legacy handshake wrapper, and each byte stream B (length n) of the
stream alphabet:

  S(j) := protocol state after feeding B[:j] as ONE chunk.
  For EVERY pair i < j: fresh protocol, feed B[:i], then B[i:j]; the state must
  equal S(j).  By induction on the number of chunks every one of the 2^(n-1)
  chunkings of B reaches S(n), i.e. delivers exactly the messages of
  whole-stream delivery.  S(n) itself is compared with the reference (the
  message list the stream was built from; nothing delivered for failing
  handshakes).  n(n-1)/2 executions per stream.
  Cross-check on reduced streams (n <= 16..18): all 2^(n-1) chunkings outright.

State = wrapper buffer/expected length/phase, which dataReceived is installed,
protocol buffer/expected length, messages delivered to the application
(Hand._process / comms.Worker.do / log handler), bytes written, disconnecting.
After loseConnection the harness feeds nothing more (Twisted stops reading) and
only the observable part of the state is compared.
'''

import itertools
import logging
import pickle
import struct

from . import common

LEVEL = 'model_checking'


class FakePGP:
    '''signature scheme stand-in: b"SIG:<key>:<payload>", valid iff key == good'''

    class R:
        pass

    def verify(self, data):
        r = FakePGP.R()
        r.valid = bytes(data).startswith(b'SIG:good:')
        return r

    def decrypt(self, data):
        r = FakePGP.R()
        r.data = bytes(data).split(b':', 2)[2] if bytes(data).count(b':') >= 2 else b''
        return r


def sign(payload, key=b'good'):
    return b'SIG:' + key + b':' + payload


CHALLENGE = [None]


def setup_security():
    import dawgie.security as sec
    import datetime as dt
    import types

    sec._PGP = FakePGP()
    sec._myself.clear()      # use_tls() False -> protocols install the wrapper
    sec._system.clear()
    shim = types.SimpleNamespace()
    for k in dir(dt):
        if not k.startswith('__'):
            setattr(shim, k, getattr(dt, k))

    class D(dt.datetime):
        @classmethod
        def now(cls, tz=None):
            return dt.datetime(2024, 1, 2, 3, 4, 5, tzinfo=tz)

    shim.datetime = D
    sec.datetime = shim
    sec.random = types.SimpleNamespace(random=lambda: 0.25)
    msg = 'timestamp: ' + str(dt.datetime(2024, 1, 2, 3, 4, 5, tzinfo=dt.UTC)) + '\nunique id: 0.25'
    CHALLENGE[0] = msg.encode()


class Rec(logging.Handler):
    def __init__(self):
        logging.Handler.__init__(self)
        self.got = []

    def handle(self, record):
        self.got.append(record.msg)

    def flush(self):
        pass


def frame(obj, fmt='>I'):
    b = pickle.dumps(obj, pickle.HIGHEST_PROTOCOL)
    return struct.pack(fmt, len(b)) + b


class Chan:
    '''factory for fresh protocol instances of one channel'''

    def __init__(self, name, shake):
        self.name = name
        self.shake = shake

    def make(self):
        import dawgie.pl.farm as farm
        import dawgie.db.shelve.comms as comms
        import dawgie.pl.logger as logger
        from twisted.internet.testing import StringTransport

        addr = ('peer', 1) if self.shake else None
        got = []
        if self.name == 'farm':
            p = farm.Hand(addr)
            p._process = lambda m, got=got: got.append(m)
            pre = '_Hand'
        elif self.name == 'db':
            p = comms.Worker(addr)
            p.do = lambda m, got=got: got.append(m)
            pre = '_Worker'
        else:
            h = Rec()
            got = h.got
            p = logger.LogSink(h, addr)
            pre = '_LogSink'
        t = StringTransport()
        p.makeConnection(t)
        return p, t, got, pre

    def state(self, p, t, got, pre):
        d = p.__dict__
        if t.disconnecting:
            return ('closed', repr(got), t.value())
        w = d.get(pre + '__handshake')
        ws = None
        if w is not None:
            wd = w.__dict__
            ws = (wd['_TwistedWrapper__buf'], wd['_TwistedWrapper__len'],
                  wd['_TwistedWrapper__phase'].__name__,
                  'dataReceived' in d and getattr(d['dataReceived'], '__self__', None) is w)
        buf = d.get(pre + '__buf')
        if isinstance(buf, dict):
            buf = (buf['data'], buf['expected'])
        return ('open', ws, buf, d.get(pre + '__len'), repr(got), t.value())


def feed(chan, chunks):
    p, t, got, pre = chan.make()
    for c in chunks:
        if t.disconnecting:
            break
        if c:
            try:
                p.dataReceived(c)
            except Exception as e:  # noqa  (Twisted would drop the connection)
                return ('raised', type(e).__name__, repr(got)), got, t
    return chan.state(p, t, got, pre), got, t


def app_messages(chan, tiny=False, k=2):
    import dawgie.pl.message as message
    import dawgie.db.shelve.comms as comms
    from dawgie.db.shelve.enums import Func

    if tiny:
        objs = [None, 1][:k] if chan.name != 'log' else [{}, {}][:k]
    elif chan.name == 'farm':
        objs = [message.make(typ=message.Type.register, inc=1, rev='r1'),
                message.make(typ=message.Type.response, jid='t.a', rid=3, suc=True, inc='A',
                             tim={'a': 'b'}, val=[('3.A.t.a.s.x', True)]),
                message.make(typ=message.Type.status, rev='r1')][:k]
    elif chan.name == 'db':
        objs = [comms.COMMAND(Func.acquire, None, None, 'me'),
                comms.COMMAND(Func.release, None, None, None)][:k]
    else:
        objs = [{'msg': 'first', 'levelno': 20}, {'msg': 'second', 'args': None},
                {'msg': 'third'}][:k]
    fmt = '>L' if chan.name == 'log' else '>I'
    expect = [o['msg'] if chan.name == 'log' and isinstance(o, dict) and 'msg' in o else o for o in objs]
    if chan.name == 'log':
        expect = [logging.makeLogRecord(o).msg for o in objs]
    return b''.join(frame(o, fmt) for o in objs), expect


def handshake_bytes(variant):
    '''client side of the handshake as bytes, (stream, succeeds?)'''
    ident = sign(b' machine: x\ntemporal: y\nusername: z\n')
    first = struct.pack('>I', 4) + struct.pack('>I', len(ident)) + ident
    echo = sign(CHALLENGE[0])
    second = struct.pack('>I', 4) + struct.pack('>I', len(echo)) + echo
    ok = True
    if variant == 'bad-first-word':
        first = struct.pack('>I', 5) + first[4:]
        ok = False
    elif variant == 'bad-ident-signature':
        ident = sign(b'who', b'evil')
        first = struct.pack('>I', 4) + struct.pack('>I', len(ident)) + ident
        ok = False
    elif variant == 'bad-second-word':
        second = struct.pack('>I', 7) + second[4:]
        ok = False
    elif variant == 'bad-echo-signature':
        echo = sign(CHALLENGE[0], b'evil')
        second = struct.pack('>I', 4) + struct.pack('>I', len(echo)) + echo
        ok = False
    elif variant == 'wrong-echo':
        echo = sign(CHALLENGE[0] + b'x')
        second = struct.pack('>I', 4) + struct.pack('>I', len(echo)) + echo
        ok = False
    elif variant.startswith('partial-echo'):
        part = {'partial-echo-empty': b'', 'partial-echo-blank': b'  ', 'partial-echo-prefix': CHALLENGE[0][:12],
                'partial-echo-first-line': CHALLENGE[0].split(b'\n')[0], 'partial-echo-colon': b':'}[variant]
        echo = sign(part)
        second = struct.pack('>I', 4) + struct.pack('>I', len(echo)) + echo
        ok = False
    elif variant == 'short-length':
        # length prefix shorter than the signed block: the rest is garbage
        first = struct.pack('>I', 4) + struct.pack('>I', len(ident) - 3) + ident
        ok = False
    return first + second, ok


VARIANTS = ['valid', 'bad-first-word', 'bad-ident-signature', 'bad-second-word',
            'bad-echo-signature', 'wrong-echo', 'short-length', 'partial-echo-empty', 'partial-echo-blank',
            'partial-echo-prefix', 'partial-echo-first-line', 'partial-echo-colon']


def streams(chan, tier):
    '''(label, bytes, expected deliveries)'''
    out = []
    ks = (1, 2) if tier == 'quick' else (1, 2, 3)
    if not chan.shake:
        for k in ks:
            b, exp = app_messages(chan, k=k)
            out.append((f'{k}-messages', b, exp))
        return out
    for v in VARIANTS:
        hs, ok = handshake_bytes(v)
        b, exp = app_messages(chan, k=2 if chan.name != 'db' else 1)
        out.append((f'handshake:{v}+messages', hs + b, exp if ok else []))
    return out


def induction(args):
    tier, seed, cname, shake, label, data, expect, shard, nshards = args
    setup_security()
    chan = Chan(cname, shake)
    ctx = common.Ctx('C14', tier, seed, LEVEL)
    n = len(data)
    S = {}
    feat = f'{cname}/{"handshake" if shake else "plain"}'
    for j in range(0, n + 1):
        S[j] = feed(chan, [data[:j]])[0]
    if shard == 0:
        # the whole-stream result against the reference
        st, got, t = feed(chan, [data])
        if repr(got) != repr(expect):
            ctx.violation(f'C14/whole-stream/{feat}/{label.split("+")[0]}',
                          f'{label}: delivered {got!r}, expected {expect!r}',
                          {'chan': cname, 'shake': shake, 'label': label, 'cut': []})
        if shake and not expect and not t.disconnecting and 'valid' not in label:
            ctx.violation(f'C14/failed-handshake-not-closed/{feat}/{label.split("+")[0]}',
                          f'{label}: connection left open', {'chan': cname, 'shake': shake,
                                                             'label': label, 'cut': []})
        # nothing reaches the application before the last handshake byte
        if shake:
            hs_len = len(handshake_bytes(label.split(':')[1].split('+')[0])[0])
            for j in range(0, hs_len):
                if S[j][0] == 'open' and S[j][4] != '[]' or S[j][0] == 'closed' and S[j][1] != '[]' \
                        or S[j][0] == 'raised' and S[j][2] != '[]':
                    ctx.violation(f'C14/delivered-before-handshake-complete/{feat}',
                                  f'{label}: after {j} of {hs_len} handshake bytes the application got data',
                                  {'chan': cname, 'shake': shake, 'label': label, 'cut': [j]})
                    break
    pairs = 0
    for j in range(2, n + 1):
        if j % nshards != shard:
            continue
        for i in range(1, j):
            pairs += 1
            st = feed(chan, [data[:i], data[i:j]])[0]
            if st != S[j]:
                ctx.violation(
                    f'C14/chunking-changes-state/{feat}/{label.split("+")[0]}',
                    f'{label}: feeding [:{i}] then [{i}:{j}] differs from feeding [:{j}] at once: '
                    f'{short(st)} vs {short(S[j])}',
                    {'chan': cname, 'shake': shake, 'label': label, 'cut': [i, j]})
    ctx.count('pairs', pairs)
    ctx.count('states', len(set(S.values())) if shard == 0 else 0)
    out = ctx.export()
    out['sample'] = {'channel': cname, 'handshake': shake, 'stream': label, 'bytes': n}
    return out


def short(st):
    return repr(st)[:200]


def allcuts(args):
    tier, seed, cname, shake, k = args
    setup_security()
    chan = Chan(cname, shake)
    ctx = common.Ctx('C14', tier, seed, LEVEL)
    if cname == 'db':
        # a db request cannot be tiny: every chunking with at most 3 cuts of
        # the one-request stream instead
        data, expect = app_messages(chan, k=1)
        n = len(data)
        ref = feed(chan, [data])
        for r in (1, 2, 3):
            for cuts in itertools.combinations(range(1, n), r):
                cuts = list(cuts)
                chunks = [data[a:b] for a, b in zip([0] + cuts, cuts + [n])]
                st = feed(chan, chunks)
                ctx.count('chunkings')
                if st[0] != ref[0]:
                    ctx.violation(f'C14/chunking-changes-result/{cname}/3-cuts',
                                  f'cuts {cuts}: {short(st[0])} vs {short(ref[0])}',
                                  {'chan': cname, 'shake': shake, 'label': '1-messages', 'cut': cuts})
        return ctx.export()
    data, expect = app_messages(chan, tiny=True, k=k)
    n = len(data)
    ref = feed(chan, [data])
    if repr(ref[1]) != repr(expect):
        ctx.violation(f'C14/whole-stream/{cname}/tiny', f'delivered {ref[1]!r}, expected {expect!r}',
                      {'chan': cname, 'shake': shake, 'label': 'tiny', 'cut': []})
    for mask in range(1 << (n - 1)):
        cuts = [i + 1 for i in range(n - 1) if mask >> i & 1]
        chunks = [data[a:b] for a, b in zip([0] + cuts, cuts + [n])]
        st = feed(chan, chunks)
        ctx.count('chunkings')
        if st[0] != ref[0]:
            ctx.violation(f'C14/chunking-changes-result/{cname}/tiny',
                          f'cuts {cuts}: {short(st[0])} vs {short(ref[0])}',
                          {'chan': cname, 'shake': shake, 'label': 'tiny', 'cut': cuts})
    return ctx.export()


# ------------------------------------------------------------------ client side
class ChunkSock:
    '''a blocking socket whose peer's bytes arrive in the given chunks: recv(n)
    returns at most n bytes and never more than the chunk that has arrived'''

    def __init__(self, chunks):
        self.chunks = [c for c in chunks if c]
        self.sent = b''
        self.closed = False

    def recv(self, n):
        if not self.chunks:
            raise EOFError('verif: recv on a drained connection (the reader wants more than was sent)')
        head = self.chunks[0]
        out, rest = head[:n], head[n:]
        if rest:
            self.chunks[0] = rest
        else:
            self.chunks.pop(0)
        return out

    def sendall(self, data):
        self.sent += data

    def close(self):
        self.closed = True


def client_streams():
    '''(label, reader, frames) - what a worker / lock client / data-base client
    reads with the blocking readers of pl.message and shelve.comms'''
    import dawgie.pl.message as message
    from dawgie.db.shelve.enums import Mutex

    wait = message.make(typ=message.Type.wait)
    task = message.make(typ=message.Type.task, ctxt=b'c' * 40, fac=('pkg.t', 'task'), jid='t.a', rid=7, target='A',
                        tim={'scheduled': 'x'})
    resp = message.make(typ=message.Type.response, suc=False)
    out = []
    for label, msgs in (('farm:wait,task', [wait, task]), ('farm:wait,wait,task', [wait, wait, task]),
                        ('farm:task,response', [task, resp])):
        out.append((label, 'receive', [message.dumps(m) for m in msgs], msgs))
    locks = [Mutex.lock, Mutex.lock, Mutex.unlock, True]
    out.append(('db:acquire,release', 'lock', [pickle.dumps(x, pickle.HIGHEST_PROTOCOL) for x in locks], locks))
    table = {'k%d' % i: i for i in range(6)}
    out.append(('db:command-reply', 'do', [pickle.dumps(table, pickle.HIGHEST_PROTOCOL)], [table]))
    return out


def read_client(reader, chunks, nframes):
    '''what the real blocking readers return for the peer bytes cut into chunks'''
    import dawgie.security
    import dawgie.pl.message as message
    import dawgie.db.shelve.comms as comms

    sock = ChunkSock(chunks)
    if reader == 'receive':
        return [message.receive(sock) for _ in range(nframes)]
    saved = dawgie.security.connect
    dawgie.security.connect = lambda address: sock
    try:
        if reader == 'lock':
            s = comms.acquire('verif')
            left = sum(len(c) for c in sock.chunks)
            ack = comms.release(s)
            return ['acquired', left, ack]
        return [comms.Connector._Connector__do(comms.COMMAND(comms.Func.table, None, comms.Table.prime, None))]
    finally:
        dawgie.security.connect = saved


def client_side(args):
    tier, seed, label, reader, frames, msgs = args
    ctx = common.Ctx('C14', tier, seed, LEVEL)
    stream = b''.join(struct.pack('>I', len(f)) + f for f in frames)
    n = len(stream)
    try:
        whole = read_client(reader, [stream], len(frames))
    except Exception as e:  # noqa
        ctx.violation(f'C14/client/{label.split(":")[0]}/whole-delivery-raises/{type(e).__name__}',
                      f'{label}: {e!r}', {'client': label, 'cuts': []})
        return ctx.export()
    if reader == 'receive' and whole != msgs:
        ctx.violation(f'C14/client/{label.split(":")[0]}/whole-delivery-differs', f'{label}: read {whole}',
                      {'client': label, 'cuts': []})
    if reader == 'lock':
        last = struct.pack('>I', len(frames[-1])) + frames[-1]
        if whole != ['acquired', len(last), True]:
            ctx.violation('C14/client/db/lock-whole-delivery', f'{label}: {whole}', {'client': label, 'cuts': []})
    ctx.count('states')
    cutsets = [(i,) for i in range(1, n)] + [(i, j) for i in range(1, n) for j in range(i + 1, n)]
    if n <= 40:
        cutsets += [(i, j, k) for i in range(1, n) for j in range(i + 1, n) for k in range(j + 1, n)]
    for cuts in cutsets:
        ctx.count('chunkings')
        edges = (0,) + cuts + (n,)
        chunks = [stream[a:b] for a, b in zip(edges, edges[1:])]
        try:
            got = read_client(reader, chunks, len(frames))
        except Exception as e:  # noqa
            ctx.violation(f'C14/client/{label.split(":")[0]}/chunking-raises/{type(e).__name__}',
                          f'{label} cut at {cuts}: {e!r}', {'client': label, 'cuts': list(cuts)})
            continue
        if got != whole:
            ctx.violation(f'C14/client/{label.split(":")[0]}/chunking-changes-messages',
                          f'{label} cut at {cuts}: read {str(got)[:200]}, whole delivery {str(whole)[:200]}',
                          {'client': label, 'cuts': list(cuts)})
    return ctx.export()


def run(ctx):
    setup_security()
    jobs = []
    nsh = 8
    for cname in ('farm', 'db', 'log'):
        for shake in (False, True):
            chan = Chan(cname, shake)
            for label, data, expect in streams(chan, ctx.tier):
                for s in range(nsh):
                    jobs.append((ctx.tier, ctx.seed, cname, shake, label, data, expect, s, nsh))
    ctx.rng.shuffle(jobs)
    for r in common.pmap(induction, jobs, chunk=4):
        ctx.merge(r)
        if 'sample' in r:
            ctx.sample(r['sample'])
    for r in common.pmap(allcuts, [(ctx.tier, ctx.seed, c, False, 2) for c in ('farm', 'db', 'log')]):
        ctx.merge(r)
    for r in common.pmap(client_side, [(ctx.tier, ctx.seed) + cs for cs in client_streams()]):
        ctx.merge(r)
    c = ctx.counters
    ctx.assumptions += [
        'client side: a blocking recv(n) returns at most n bytes and never more than the chunk that has arrived',
        'signature scheme replaced by FakePGP (valid iff signed with the good key); the phase machine, framing and '
        'reassembly are the real code',
        'after transport.loseConnection no further bytes are delivered (twisted.internet.abstract.FileDescriptor)',
        'challenge timestamp/random replaced by constants so that the valid echo is a fixed byte string']
    cov = {
        'states': c.get('states', 0),
        'transitions': c.get('pairs', 0) + c.get('chunkings', 0),
        'traces_validated_against_impl': c.get('pairs', 0) + c.get('chunkings', 0),
        'explanation': 'states = distinct prefix states S(j) over all streams; transitions = two-chunk executions '
                       '(i<j pairs) plus outright chunkings of the reduced streams; all on the real protocol classes',
        'streams': len(jobs) // nsh,
        'client_side': 'blocking readers pl.message.receive (worker side of the farm channel), comms.acquire/release '
                       'and Connector.__do (client side of the data-base channel): every 1- and 2-cut chunking of '
                       f'{len(client_streams())} multi-message streams (3 cuts for streams <= 40 bytes)',
    }
    return common.finish(ctx, cov, exhaustive=True)


def replay(data):
    setup_security()
    r = data['replay']
    if 'client' in r:
        label, reader, frames, msgs = [cs for cs in client_streams() if cs[0] == r['client']][0]
        stream = b''.join(struct.pack('>I', len(f)) + f for f in frames)
        edges = [0] + list(r['cuts']) + [len(stream)]
        chunks = [stream[a:b] for a, b in zip(edges, edges[1:])]
        whole = read_client(reader, [stream], len(frames))
        try:
            got = read_client(reader, chunks, len(frames))
        except Exception as e:  # noqa
            got = repr(e)
        print('client stream', label, len(stream), 'bytes, cuts', r['cuts'])
        print('chunked :', str(got)[:300])
        print('at once :', str(whole)[:300])
        print('VIOLATES' if got != whole else 'ok')
        return 1 if got != whole else 0
    chan = Chan(r['chan'], r['shake'])
    if r['label'] == 'tiny':
        b, exp = app_messages(chan, tiny=True)
    else:
        found = [s for s in streams(chan, 'thorough') if s[0] == r['label']]
        _l, b, exp = found[0]
    cuts = r['cut']
    chunks = [b[x:y] for x, y in zip([0] + cuts, cuts + [cuts[-1] if len(cuts) == 2 else len(b)])] if cuts else [b]
    if len(cuts) == 2:
        chunks = [b[:cuts[0]], b[cuts[0]:cuts[1]]]
        whole = feed(chan, [b[:cuts[1]]])
    else:
        whole = feed(chan, [b])
    st = feed(chan, chunks)
    print('stream', r['label'], len(b), 'bytes; cuts', cuts)
    print('chunked :', short(st[0]))
    print('at once :', short(whole[0]))
    print('expected deliveries:', exp)
    bad = st[0] != whole[0] or (not cuts and repr(st[1]) != repr(exp))
    print('VIOLATES' if bad else 'ok')
    return 1 if bad else 0
