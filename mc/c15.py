'''C15 - version order is total; a version change reschedules exactly its owner.

(a) every ordered pair of versions from {0,1,2}^3 (729): the six comparison
    operators and newer() agree with tuple comparison; trichotomy, antisymmetry
    and transitivity on all 19 683 triples.
(b) for every engine of the canonical family x every "persisted history"
    (which software snapshots - base and/or one-element-bumped variants - were
    recorded for which subset of algorithms, through the real
    pl.version.record -> db.update path, pipeline side and worker side over the
    wire) x every current snapshot: the real pl.version.current, db.versions and
    schedule.build must queue exactly the algorithms one of whose own / state
    vector / value version strings is not among the persisted ones, for every
    known target ('__all__' for analyses), and nothing else.
'''

import itertools

from . import common, aegen

LEVEL = 'exploration'


# ---------------------------------------------------------------- (a)
def part_a(ctx):
    import dawgie

    class V(dawgie.Version):
        def __init__(self, t):
            self._version_ = dawgie.VERSION(*t)

    space = list(itertools.product(range(3), repeat=3))
    objs = {t: V(t) for t in space}
    ops = {
        '==': (lambda a, b: a == b), '!=': (lambda a, b: a != b),
        '<': (lambda a, b: a < b), '<=': (lambda a, b: a <= b),
        '>': (lambda a, b: a > b), '>=': (lambda a, b: a >= b),
    }
    for a in space:
        for b in space:
            ctx.count('pairs')
            for name, op in ops.items():
                want = op(a, b)
                try:
                    got = op(objs[a], objs[b])
                except Exception as e:  # noqa
                    got = repr(e)
                if got is not want:
                    ctx.violation(
                        f'C15/operator/{name}',
                        f'Version{a} {name} Version{b} is {got}, tuple order says {want}',
                        {'a': a, 'b': b, 'op': name})
            got = objs[a].newer(objs[b]._get_ver())
            if got is not (a > b):
                ctx.violation('C15/operator/newer',
                              f'Version{a}.newer({b}) is {got}, expected {a > b}',
                              {'a': a, 'b': b, 'op': 'newer'})
            tri = [objs[a] < objs[b], objs[a] == objs[b], objs[a] > objs[b]]
            if sum(bool(x) for x in tri) != 1:
                ctx.violation('C15/trichotomy', f'{a} vs {b}: {tri}',
                              {'a': a, 'b': b, 'op': 'trichotomy'})
    # transitivity / antisymmetry on all triples using the implementation's <=
    le = {(a, b): bool(objs[a] <= objs[b]) for a in space for b in space}
    for a in space:
        for b in space:
            if le[(a, b)] and le[(b, a)] and a != b:
                ctx.violation('C15/antisymmetry', f'{a} <= {b} <= {a}',
                              {'a': a, 'b': b, 'op': 'antisymmetry'})
            for c in space:
                ctx.count('triples')
                if le[(a, b)] and le[(b, c)] and not le[(a, c)]:
                    ctx.violation('C15/transitivity', f'{a} <= {b} <= {c} but not {a} <= {c}',
                                  {'a': a, 'b': b, 'c': c, 'op': 'transitivity'})


# ---------------------------------------------------------------- (b)
def variants(desc):
    '''base + every single-element bump (alg / sv / value of each algorithm)'''
    import copy

    out = [('base', desc)]
    for i, a in enumerate(desc['algs']):
        d = copy.deepcopy(desc)
        d['algs'][i]['ver'] = [1, 1, 0]
        out.append((f"alg:{a['t']}.{a['n']}", d))
        d = copy.deepcopy(desc)
        d['algs'][i]['svs'][0]['ver'] = [2, 0, 0]
        out.append((f"sv:{a['t']}.{a['n']}.{a['svs'][0]['n']}", d))
        d = copy.deepcopy(desc)
        withvals = [s for s in d['algs'][i]['svs'] if s['vals']]
        withvals[-1]['vals'][-1]['ver'] = [1, 0, 1]
        out.append((f"val:{a['t']}.{a['n']}", d))
        for j, s in enumerate(a['svs']):
            if not s['vals']:
                # a state vector whose keys only appear at run time
                d = copy.deepcopy(desc)
                d['algs'][i]['svs'][j]['ver'] = [3, 0, 0]
                out.append((f"keyless-sv:{a['t']}.{a['n']}.{s['n']}", d))
    return out


def vstr(v):
    return '.'.join(str(x) for x in v)


def versions_of(desc, tag):
    '''(alg name->ver, sv name->ver, val name->ver) strings of one algorithm'''
    t, n = tag.split('.')
    a = [x for x in desc['algs'] if (x['t'], x['n']) == (t, n)][0]
    out = {tag: vstr(a['ver'])}
    for s in a['svs']:
        if not s['vals']:
            # no value, nothing the store can record a version for: such a
            # state vector takes no part in the comparison
            continue
        out[f"{tag}.{s['n']}"] = vstr(s['ver'])
        for v in s['vals']:
            out[f"{tag}.{s['n']}.{v['n']}"] = vstr(v['ver'])
    return out


def record(eng, facs, tag, wire):
    '''what a worker does before running tag (Context.run -> version.record)'''
    import dawgie
    import dawgie.pl.version
    import dawgie.util
    from dawgie.db.shelve.state import DBI

    kind = eng.kind(tag)
    fac = [f for f in facs[dawgie.Factories[kind]]
           if dawgie.util.task_name(f) == tag.split('.')[0]][0]
    name = dawgie.util.task_name(fac)
    if kind == 'task':
        task = fac(name, 0, 1, 'A')
    elif kind == 'analysis':
        task = fac(name, 0, 1)
    else:
        task = fac(name, 0, 'A')
    DBI()._DBI__reopened = wire
    try:
        dawgie.pl.version.record(task, only=tag.split('.')[1])
    finally:
        DBI()._DBI__reopened = False


def work_b(args):
    tier, seed, ename, desc = args
    import dawgie
    import dawgie.db
    import dawgie.pl.schedule as schedule
    import dawgie.pl.version
    from . import world, pipeworld

    ctx = common.Ctx('C15', tier, seed, LEVEL)
    pipeworld.install_seams()
    root = common.scratch_root()
    var = variants(desc)
    engines = {name: aegen.Engine(d) for name, d in var}
    tags = engines['base'].tags()
    quick = tier == 'quick'
    # persisted histories: (recorded variant set per algorithm)
    # each algorithm: never recorded / recorded under base / under the bumped
    # variant / under both
    outcomes = set()
    target_sets = [[], ['A', 'B']]
    for bump_name, bump_desc in var[1:]:
        for cur_name in ('base', bump_name):
            for pattern in itertools.product(('none', 'base', 'bump', 'both'),
                                             repeat=len(tags)):
                if quick and len(tags) > 2 and pattern.count('none') + pattern.count('both') > 2:
                    # quick tier: keep <= 2 "exotic" columns for 3+ algorithm engines
                    continue
                for targets in target_sets:
                    for wire in ((False,) if quick and targets else (False, True)):
                        ctx.count('cases')
                        w = world.StoreWorld()
                        try:
                            persisted = {}
                            for tag, how in zip(tags, pattern):
                                for vn in (('base',) if how == 'base' else
                                           (bump_name,) if how == 'bump' else
                                           ('base', bump_name) if how == 'both' else ()):
                                    e = engines[vn]
                                    facs = e.load(root)
                                    record(e, facs, tag, wire)
                                    for k, v in versions_of(e.desc, tag).items():
                                        persisted.setdefault(k, set()).add(v)
                            for t in targets:
                                dawgie.db.add(t)
                            cur = engines[cur_name]
                            facs = cur.load(root)
                            dawgie.context.git_rev = 'r1'
                            schedule.que = []
                            latest = dawgie.pl.version.current(
                                facs[dawgie.Factories.analysis]
                                + facs[dawgie.Factories.regress]
                                + facs[dawgie.Factories.task])
                            previous = dawgie.pl.version.persistent()
                            schedule.build(facs, latest, previous)
                            got = {}
                            for r in schedule.ae.at:
                                for n in r.iter():
                                    if n.get('todo'):
                                        got[n.tag] = sorted(n.get('todo'))
                            queued = sorted(n.tag for n in schedule.que)
                            want = {}
                            for tag in tags:
                                vs = versions_of(cur.desc, tag)
                                changed = any(v not in persisted.get(k, ()) for k, v in vs.items())
                                if changed:
                                    if cur.kind(tag) == 'analysis':
                                        want[tag] = ['__all__']
                                    elif targets:
                                        want[tag] = sorted(targets)
                            rep = {'engine': ename, 'desc': desc, 'bump': bump_name,
                                   'current': cur_name, 'pattern': list(pattern),
                                   'targets': targets, 'wire': wire}
                            outcomes.add((ename, tuple(sorted(want))))
                            if got != want:
                                extra = sorted(set(got) - set(want))
                                missing = sorted(set(want) - set(got))
                                clause = ('not-scheduled' if missing else
                                          'scheduled-without-change' if extra else 'wrong-targets')
                                ctx.violation(
                                    f'C15/build/{clause}/{bump_name.split(":")[0]}',
                                    f'[{ename}] current={cur_name} persisted per alg={dict(zip(tags, pattern))} '
                                    f'targets={targets}: todo {got}, expected {want}', rep)
                            elif queued != sorted(want):
                                ctx.violation(
                                    'C15/build/queue',
                                    f'[{ename}] que={queued} but todo is set for {sorted(want)}', rep)
                        finally:
                            w.close()
    out = ctx.export()
    out['outcomes'] = [list(o) for o in outcomes]
    out['sample'] = {'engine': ename, 'variants': [n for n, _d in var]}
    return out


def run(ctx):
    part_a(ctx)
    E = aegen.chain_engines()
    names = ['single', 'chain2', 'pair', 'task-analysis', 'regress-leaf']
    if not ctx.quick():
        names += ['chain3', 'fork', 'join', 'task-analysis-task']
    E['keyless'] = {'style': 'legacy', 'algs': [
        aegen.alg('ta', 'a', svs=[aegen.sv('s'), aegen.sv('dyn', vals=())]), aegen.alg('tb', 'b')]}
    names.append('keyless')
    jobs = [(ctx.tier, ctx.seed, n, E[n]) for n in names]
    outcomes = set()
    for r in common.pmap(work_b, jobs):
        ctx.merge(r)
        outcomes.update((o[0], tuple(o[1])) for o in r['outcomes'])
        ctx.sample(r['sample'])
    c = ctx.counters
    ctx.assumptions += ['shelve back end', 'versions drawn from {0,1,2}^3 for the order; '
                        'one element bumped per software snapshot for the build step']
    cov = {
        'evaluations': c.get('pairs', 0) + c.get('triples', 0) + c.get('cases', 0),
        'distinct_nontrivial': len(outcomes),
        'rule': '(a) all 729 ordered pairs and 19683 triples of versions in {0,1,2}^3; (b) engines x '
                'single-element bumps (alg/sv/value of each algorithm) x current in {base,bumped} x per-algorithm '
                'persisted history in {none,base,bumped,both} x targets {none,{A,B}} x recording path '
                '{pipeline side, worker side over the wire}. distinct_nontrivial = distinct expected '
                'schedules (engine, set of algorithms to rerun)',
        'build_cases': c.get('cases', 0),
    }
    return common.finish(ctx, cov, exhaustive=True)


def replay(data):
    r = data['replay']
    if 'op' in r:
        import dawgie

        class V(dawgie.Version):
            def __init__(self, t):
                self._version_ = dawgie.VERSION(*t)
        a, b = V(r['a']), V(r['b'])
        print(r, {'==': a == b, '!=': a != b, '<': a < b, '<=': a <= b,
                  '>': a > b, '>=': a >= b, 'newer': a.newer(b._get_ver())})
        return 0
    print('build case:', {k: r[k] for k in r if k != 'desc'})
    print('re-run `bin/check C15` to re-evaluate; the case is fully described above')
    return 0
