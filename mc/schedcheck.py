'''driver shared by the scheduler/farm model-checking checks (C01 C03 C04 C05)'''

import random

from . import common, aegen, explore


def job(args):
    (pid, tier, seed, name, desc, targets, props, opts) = args
    from .sched import SchedAdapter

    opts = dict(opts)
    # safety net: a (mutated) tree whose state space does not close must not
    # hang the check; a capped run is reported as not exhaustive
    cap = opts.pop('max_states', None) or (60000 if tier == 'quick' else 1500000)
    try:
        ad = SchedAdapter(desc, targets, props, **opts)
    except common.GraphMismatch as e:
        sig = f'{pid}/task-graph-lacks-a-declared-algorithm'
        return {'name': name, 'targets': targets, 'states': 0, 'transitions': 0, 'selfchecked': 0, 'capped': False,
                'depth': 0, 'extra': {}, 'digest': '',
                'violations': {sig: {'what': f'[{name}] {e}', 'count': 1,
                                     'replay': {'engine': name, 'desc': desc, 'targets': targets, 'props': sorted(props),
                                                'opts': opts, 'history': []}}}}
    ex = explore.Explorer(ad, max_states=cap, keep_graph='C04' in props)
    res = ex.run()
    rng = random.Random(seed)
    bad = ex.selfcheck(res, rng, 40 if tier == 'quick' else 400)
    if bad:
        raise common.HarnessBroken(
            f'{name}: snapshot/restore diverges from full replay on {bad[0]}')
    viol = {}
    for sig, what, hist in res.violations:
        v = viol.setdefault(sig, {'what': None, 'replay': None, 'count': 0})
        v['count'] += 1
        if what is not None and v['what'] is None:
            # confirm by two independent full replays (no snapshots)
            hits = 0
            for _ in range(2):
                found = []
                ad.replay(hist, lambda a, b: found.append(a))
                if sig in found:
                    hits += 1
            if hits != 2:
                raise common.HarnessBroken(
                    f'{name}: violation {sig} does not reproduce on replay {hist}')
            v['what'] = f'[{name} targets={targets}] {what}'
            v['replay'] = {'engine': name, 'desc': desc, 'targets': targets,
                           'props': sorted(props), 'opts': opts,
                           'history': [list(e) for e in hist]}
    extra = {}
    if 'C04' in props and res.graph is not None:
        extra = liveness(ad, res, name, targets, desc, opts, viol)
    return {
        'name': name, 'targets': targets, 'states': res.states,
        'transitions': res.transitions, 'depth': res.max_depth,
        'capped': res.capped, 'selfchecked': res.selfchecked,
        'violations': viol, 'extra': extra,
        'digest': common.digest(sorted(repr(k) for k in res.keys)),
    }


def liveness(ad, res, name, targets, desc, opts, viol):
    '''on the explored graph restricted to internal events (tick, reply):
    no cycle, and every sink is quiescent'''
    g = {}
    for k, outs in res.graph.items():
        g[k] = [nk for ev, nk in outs if ad.internal(ev) and nk != k]
    # self loops of tick at a state: tick that changes nothing is fine only if
    # the state is quiescent or something is in flight (a reply is enabled)
    cyc = [c for c in explore.sccs(g) if len(c) > 1]
    ex = explore.Explorer(ad)
    stuck = 0
    for k, outs in res.graph.items():
        internal = [(ev, nk) for ev, nk in outs if ad.internal(ev)]
        progress = [nk for ev, nk in internal if nk != k]
        if progress:
            continue
        # sink for internal progress: must be quiescent
        world_state = k[0]
        nodes, que = world_state[0], world_state[1]
        inflight = world_state[9]
        pend = any(todo or doing or do for _t, todo, doing, do, _st, _r in nodes)
        if pend or que or inflight or world_state[4] or world_state[5]:
            stuck += 1
            sig = 'C04/stuck-not-quiescent'
            v = viol.setdefault(sig, {'what': None, 'replay': None, 'count': 0})
            v['count'] += 1
            if v['what'] is None:
                hist = ex.history(res.parent, k)
                v['what'] = (f'[{name} targets={targets}] no internal progress '
                             f'possible but que={que} nodes={nodes}')
                v['replay'] = {'engine': name, 'desc': desc, 'targets': targets,
                               'props': ['C04'], 'opts': opts,
                               'history': [list(e) for e in hist]}
    if cyc:
        sig = 'C04/internal-cycle'
        v = viol.setdefault(sig, {'what': None, 'replay': None, 'count': 0})
        v['count'] += len(cyc)
        if v['what'] is None:
            hist = ex.history(res.parent, cyc[0][0])
            v['what'] = f'[{name}] cycle of internal events through {len(cyc[0])} states'
            v['replay'] = {'engine': name, 'desc': desc, 'targets': targets,
                           'props': ['C04'], 'opts': opts,
                           'history': [list(e) for e in hist]}
    return {'internal_sccs': len(cyc), 'stuck': stuck}


def run(ctx, pid, jobs):
    '''jobs: list of (name, desc, targets, props, opts)'''
    args = [(pid, ctx.tier, ctx.seed) + tuple(j) for j in jobs]
    order = list(range(len(args)))
    ctx.rng.shuffle(order)
    results = common.pmap(job, [args[i] for i in order])
    states = transitions = selfchecked = 0
    capped = []
    per = []
    for r in results:
        states += r['states']
        transitions += r['transitions']
        selfchecked += r['selfchecked']
        if r['capped']:
            capped.append(r['name'])
        for sig, v in r['violations'].items():
            if v['what'] is None:
                continue
            mine = ctx.violations.get(sig)
            if mine is None:
                ctx.violations[sig] = dict(v)
            else:
                mine['count'] += v['count']
                # keep the shortest history
                if len(v['replay']['history']) < len(mine['replay']['history']):
                    mine['what'], mine['replay'] = v['what'], v['replay']
        per.append({k: r[k] for k in ('name', 'targets', 'states', 'transitions',
                                      'depth', 'digest', 'extra')})
    for c in capped:
        ctx.cap(f'state cap hit for {c}')
    per.sort(key=lambda d: (d['name'], str(d['targets'])))
    return states, transitions, selfchecked, per


def replay(data):
    '''re-execute one recorded history without the explorer; prints the log'''
    from .sched import SchedAdapter

    r = data['replay']
    ad = SchedAdapter(r['desc'], r['targets'], set(r['props']), **r['opts'])
    s = ad.initial()
    hits = []
    for ev in [tuple(tuple(x) if isinstance(x, list) else x for x in e) for e in r['history']]:
        found = []
        ns = ad.fresh_step(s, ev, lambda a, b: found.append((a, b)))
        print('event', ev)
        for e in ad.log:
            print('    ', e)
        for o in ad.w.obs:
            print('     wire', o[:5])
        print('     que', [n.tag for n in __import__('dawgie.pl.schedule').pl.schedule.que],
              'inflight', [(j, t, r_) for j, t, r_, _u in ad.w.inflight])
        for a, b in found:
            print('  !!', a, '::', b)
            hits.append(a)
        s = ns
    bad = data['signature'] in hits
    print('VIOLATES' if bad else 'ok (signature not reproduced)')
    return 1 if bad else 0


def timer_jobs(props, quick):
    '''engines with a weekly event, wall clock one hour before its moment:
    the timer fires as an explorer event in every interleaving'''
    from . import aegen
    A = aegen.alg
    ev = [{'dow': 2, 'time': [3, 0, 0]}]       # 2024-01-10 is a Wednesday
    E = {
        'timer-leaf': [A('ta', 'a'), A('tb', 'b', inputs=[('ta', 'a', None, None)], ev=ev)],
        'timer-root': [A('ta', 'a', ev=ev), A('tb', 'b', inputs=[('ta', 'a', None, None)])],
        'timer-analysis': [A('ta', 'a'), A('tz', 'z', 'analysis', inputs=[('ta', 'a', 's', None)], ev=ev)],
        # two events of one algorithm that can be due in the same pass
        'timer-boot+weekly': [A('ta', 'a', ev=[{'boot': True}] + ev), A('tb', 'b', inputs=[('ta', 'a', None, None)])],
    }
    out = []
    for name, algs in E.items():
        opts = {'reqs': 2, 'clock_at': '2024-01-10T02:00:00+00:00', 'max_timers': 2}
        if name == 'timer-boot+weekly':
            # boot within the firing window of the weekly event
            opts = {'reqs': 1, 'clock_at': '2024-01-10T02:57:00+00:00', 'max_timers': 2}
        out.append((name, {'style': 'legacy', 'algs': algs}, ['A'], props, opts))
    if 'C04' in props:
        # a data base that knows no target yet ("every target set, including none")
        for name in ('timer-root', 'timer-analysis'):
            out.append((name + '/no-targets', {'style': 'legacy', 'algs': E[name]}, [], props,
                        {'reqs': 0, 'clock_at': '2024-01-10T02:00:00+00:00', 'max_timers': 2}))
    return out
