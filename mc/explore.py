'''Generic explicit-state BFS over a real-code adapter.

adapter interface
    initial()            -> state (plain data snapshot)
    enabled(state)       -> list of events (JSON-able tuples), simplest first
    step(state, ev, report) -> new state   (restore(state); apply ev; capture)
                            report(signature, what) records a violation of
                            this transition
    canon(state)         -> hashable canonical key (incl. monitor state)
    internal(ev)         -> bool: event is internal progress (for liveness)
    replay(history)      -> state reached from a fresh initial state by applying
                            the events without snapshot/restore (self-check)
'''

import collections


class Result:
    def __init__(self):
        self.states = 0
        self.transitions = 0
        self.max_depth = 0
        self.violations = []   # (signature, what, history)
        self.capped = False
        self.graph = None
        self.selfchecked = 0
        self.keys = None


class Explorer:
    def __init__(self, adapter, max_states=None, keep_graph=False):
        self.a = adapter
        self.max_states = max_states
        self.keep_graph = keep_graph

    def history(self, parent, key):
        h = []
        while parent[key] is not None:
            key, ev = parent[key]
            h.append(ev)
        h.reverse()
        return h

    def run(self):
        a = self.a
        res = Result()
        s0 = a.initial()
        k0 = a.canon(s0)
        parent = {k0: None}
        depth = {k0: 0}
        states = {k0: s0}
        frontier = collections.deque([k0])
        graph = {} if self.keep_graph else None
        seen_sig = set()
        while frontier:
            k = frontier.popleft()
            s = states.pop(k)
            if graph is not None:
                graph[k] = []
            for ev in a.enabled(s):
                found = []
                ns = a.step(s, ev, lambda sig, what: found.append((sig, what)))
                res.transitions += 1
                nk = a.canon(ns)
                if graph is not None:
                    graph[k].append((ev, nk))
                for sig, what in found:
                    if sig not in seen_sig:
                        seen_sig.add(sig)
                        res.violations.append(
                            (sig, what, self.history(parent, k) + [ev]))
                    else:
                        res.violations.append((sig, None, None))
                if nk not in parent:
                    if self.max_states and len(parent) >= self.max_states:
                        res.capped = True
                        continue
                    parent[nk] = (k, ev)
                    depth[nk] = depth[k] + 1
                    res.max_depth = max(res.max_depth, depth[nk])
                    states[nk] = ns
                    frontier.append(nk)
        res.states = len(parent)
        res.graph = graph
        res.parent = parent
        res.keys = set(parent)
        return res

    def selfcheck(self, res, rng, count):
        '''replay `count` explored histories from scratch (no snapshots) and
        demand the same canonical key: validates capture/restore'''
        keys = sorted(res.parent, key=repr)
        if count < len(keys):
            keys = rng.sample(keys, count)
        bad = []
        for k in keys:
            h = self.history(res.parent, k)
            s = self.a.replay(h)
            if self.a.canon(s) != k:
                bad.append(h)
            res.selfchecked += 1
        return bad


def sccs(graph):
    '''Tarjan, iterative.  graph: node -> list of successor nodes'''
    index, low, on, stack, out = {}, {}, set(), [], []
    counter = [0]
    for root in graph:
        if root in index:
            continue
        work = [(root, iter(graph.get(root, ())))]
        index[root] = low[root] = counter[0]
        counter[0] += 1
        stack.append(root)
        on.add(root)
        while work:
            v, it = work[-1]
            adv = False
            for w in it:
                if w not in index:
                    index[w] = low[w] = counter[0]
                    counter[0] += 1
                    stack.append(w)
                    on.add(w)
                    work.append((w, iter(graph.get(w, ()))))
                    adv = True
                    break
                if w in on:
                    low[v] = min(low[v], index[w])
            if adv:
                continue
            work.pop()
            if work:
                u = work[-1][0]
                low[u] = min(low[u], low[v])
            if low[v] == index[v]:
                comp = []
                while True:
                    w = stack.pop()
                    on.discard(w)
                    comp.append(w)
                    if w == v:
                        break
                out.append(comp)
    return out


_EXPAND = [None]


def _expand_chunk(hs):
    import hashlib
    import traceback
    try:
        out = []
        for h in hs:
            succ, vio = _EXPAND[0](h)
            out.append(([(hashlib.sha1(repr(k).encode()).hexdigest(), ev) for k, ev in succ], vio))
        return True, out
    except BaseException:  # noqa
        return False, traceback.format_exc()


def replay_bfs(expand, k0, procs=16, cap=None, min_parallel=48, eager_pool=False):
    '''level-synchronous BFS for replay-based adapters (live objects are
    rebuilt from the event history).  expand(history) must return
    (successors, violations) with successors = [(canon_key, event)] and
    violations = [(signature, what, history)].  One pool of forked workers is
    created once (the adapter is inherited copy-on-write); levels are sharded
    over it; canonical keys travel as digests.'''
    import hashlib
    import multiprocessing as mp
    import os
    from . import common
    _EXPAND[0] = expand
    procs = min(procs, int(os.environ.get('VERIF_PROCS', '16')))
    seen = {hashlib.sha1(repr(k0).encode()).hexdigest()}
    level = [[]]
    transitions = 0
    viols = []
    capped = False
    depth = 0
    pool = None
    try:
        if eager_pool and procs > 1:
            # fork before the parent touches any resource the workers must not
            # inherit in an open state (e.g. a store directory)
            pool = mp.get_context('fork').Pool(procs)
        while level:
            if len(level) >= min_parallel and procs > 1:
                if pool is None:
                    pool = mp.get_context('fork').Pool(procs)
                n = procs * 4
                chunks = [level[i::n] for i in range(n)]
                chunks = [c for c in chunks if c]
                outs = pool.map(_expand_chunk, chunks)
                results = []
                for hs, (ok, out) in zip(chunks, outs):
                    if not ok:
                        raise common.HarnessBroken('worker failed:\n' + out)
                    results.extend(zip(hs, out))
            else:
                results = []
                for h in level:
                    ok, out = _expand_chunk([h])
                    if not ok:
                        raise common.HarnessBroken('expand failed:\n' + out)
                    results.append((h, out[0]))
            nxt = []
            for h, (succ, vio) in results:
                viols.extend(vio)
                for nk, ev in succ:
                    transitions += 1
                    if nk not in seen:
                        if cap and len(seen) >= cap:
                            capped = True
                            continue
                        seen.add(nk)
                        nxt.append(h + [ev])
            level = nxt
            depth += 1
    finally:
        if pool is not None:
            pool.terminate()
            pool.join()
    return {'states': len(seen), 'transitions': transitions, 'violations': viols,
            'capped': capped, 'depth': depth, 'keys': seen}
