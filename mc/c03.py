'''C03 - see DESIGN.md section 2 (C03).

State graph of the real scheduler+farm (pl.schedule, pl.farm, pl.dag) per
engine, explored to a fixpoint under the stated bounds; oracle evaluated at
every release against the *generator's* dependency closure and the harness's
own in-flight ground truth (task messages decoded from worker transports).
'''
from . import common, aegen, schedcheck

LEVEL = 'model_checking'
PID = 'C03'


def jobs(ctx, props):
    E = aegen.chain_engines()
    out = []
    quick = ctx.quick()
    for name, desc in E.items():
        for targets in (['A'], ['A', 'B']):
            if quick and len(targets) == 2 and name in ('diamond', 'join', 'task-analysis-task', 'shared-input'):
                reqs = 1
            else:
                reqs = 2
            if not quick:
                reqs = 2 if len(desc['algs']) >= 4 and len(targets) == 2 else 3
            out.append((name, desc, targets, props, {'reqs': reqs}))
    # explicit farm: 0-2 workers register / disconnect in every order, so that
    # released units wait in the cluster queue ("otherwise stays queued")
    for name in ('single', 'chain2', 'pair', 'task-analysis'):
        out.append((name + '/explicit', E[name], ['A', 'B'] if name == 'single' else ['A'],
                    props, {'reqs': 2, 'mode': 'explicit', 'max_workers': 2,
                            'outcomes': ('success', 'failure')}))
    # a reload (FSM.load: notify_all, farm.clear, schedule.build) at any moment,
    # with work queued for want of a worker: nothing of the old schedule may
    # reach a worker afterwards ("work released since the last (re)load")
    for name in ('single', 'chain2'):
        out.append((name + '/explicit+reload', E[name], ['A'], props,
                    {'reqs': 2, 'mode': 'explicit', 'max_workers': 1 if quick else 2, 'outcomes': ('success',),
                     'revs': ('r1',), 'life': 'reload', 'max_life': 1 if quick else 2}))
    # target names where one begins the other, both executing at once
    for name in ('single', 'chain2'):
        out.append((name + '/prefix-targets', E[name], ['A', 'AB'], props,
                    {'reqs': 2, 'mode': 'explicit', 'max_workers': 2, 'outcomes': ('success', 'failure')}))
    # one transient data-base outage during a dispatch (see C04)
    for name in ('single', 'pair'):
        out.append((name + '/db-outage', E[name], ['A', 'B'], props, {'reqs': 2, 'faults': 1}))
    out += schedcheck.timer_jobs(props, quick)
    return out


def run(ctx):
    states, transitions, selfchecked, per = schedcheck.run(ctx, PID, jobs(ctx, {PID}))
    for p in per[:6]:
        ctx.sample(p)
    cov = {
        'states': states, 'transitions': transitions,
        'traces_validated_against_impl': selfchecked,
        'explanation': 'exploration is on the implementation itself (no separate model): every '
                       'transition executes the real pl.schedule/pl.farm code; '
                       'traces_validated = histories re-executed from scratch without '
                       'snapshot/restore and required to reach the same canonical state',
        'per_engine': per,
    }
    return common.finish(ctx, cov, exhaustive=True)


def replay(data):
    return schedcheck.replay(data)
