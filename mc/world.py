'''Virtual environment seams (all monkey-patches applied from /verif; the
repository is not modified).  common.bootstrap() must have run first.

  StoreWorld   real dawgie.db.shelve on a scratch directory, reached through an
               in-process loopback "socket" that feeds a real comms.Worker
               protocol instance on the deterministic reactor.
'''

import hashlib
import itertools
import os
import shutil
import subprocess

from . import common

import dawgie
import dawgie.context
import dawgie.db
import dawgie.db.shelve
import dawgie.db.shelve.comms as comms
import dawgie.db.shelve.state
import dawgie.db.util
import dawgie.security
import twisted.internet.reactor as reactor
from twisted.internet.testing import StringTransport
from twisted.python.failure import Failure
from twisted.internet.error import ConnectionDone

DBI = dawgie.db.shelve.state.DBI


class Deadlock(Exception):
    '''client blocks in recv() while nothing can ever arrive'''


# ------------------------------------------------------------------ reactor


def reset_reactor():
    '''drop every pending timer of the MemoryReactorClock'''
    for c in list(reactor.getDelayedCalls()):
        try:
            c.cancel()
        except Exception:  # noqa
            pass
    reactor.rightNow = 0.0 if hasattr(reactor, 'rightNow') else 0.0
    for attr in ('tcpServers', 'sslServers', 'tcpClients', 'sslClients'):
        if hasattr(reactor, attr):
            getattr(reactor, attr).clear()


def advance_to_next_timer():
    '''advance the virtual clock exactly to the next due timer and run it.
    returns False when there is no timer'''
    calls = reactor.getDelayedCalls()
    if not calls:
        return False
    nxt = min(c.getTime() for c in calls)
    reactor.advance(max(0.0, nxt - reactor.seconds()))
    return True


# ------------------------------------------------------------------ digests

_REAL_CHECK_OUTPUT = subprocess.check_output


def _fake_check_output(cmd, *a, **kw):
    if cmd and cmd[0] in ('md5sum', 'sha1sum'):
        fn = cmd[-1]
        h = hashlib.md5() if cmd[0] == 'md5sum' else hashlib.sha1()
        with open(fn, 'rb') as f:
            h.update(f.read())
        return (h.hexdigest() + ' *' + fn + '\n').encode()
    return _REAL_CHECK_OUTPUT(cmd, *a, **kw)


class _SubprocessShim:
    def __getattr__(self, name):
        return getattr(subprocess, name)

    check_output = staticmethod(_fake_check_output)


def validate_digest_seam(scratch):
    '''the hashlib stand-in must print what the real tools print'''
    fn = os.path.join(scratch, 'digest-probe.bin')
    for payload in (b'', b'abc', bytes(range(256)) * 7):
        with open(fn, 'wb') as f:
            f.write(payload)
        for tool in ('md5sum', 'sha1sum'):
            real = _REAL_CHECK_OUTPUT([tool, '-b', fn])
            fake = _fake_check_output([tool, '-b', fn])
            if real != fake:
                raise common.HarnessBroken(
                    f'digest seam differs from {tool}: {real!r} vs {fake!r}'
                )
    os.unlink(fn)


# ------------------------------------------------------------------ loopback


class FakeSock:
    '''client side of an in-process connection to a real comms.Worker'''

    live = []  # every open loopback (world inspects it)
    fragment = None  # optional int: split client->server bytes in chunks

    def __init__(self, address=None):
        was = DBI()._DBI__reopened
        DBI()._DBI__reopened = False
        try:
            self.proto = comms.Worker(None)
            self.transport = StringTransport()
            self.proto.makeConnection(self.transport)
        finally:
            DBI()._DBI__reopened = was
        self.closed = False
        self.rpos = 0
        FakeSock.live.append(self)

    def _server(self, fn, *a):
        was = DBI()._DBI__reopened
        DBI()._DBI__reopened = False
        try:
            return fn(*a)
        finally:
            DBI()._DBI__reopened = was

    def sendall(self, data):
        if self.closed:
            raise OSError('send on closed loopback')
        if self.transport.disconnecting:
            return  # twisted stops reading after loseConnection
        if FakeSock.fragment:
            n = FakeSock.fragment
            for i in range(0, len(data), n):
                if self.transport.disconnecting:
                    break
                self._server(self.proto.dataReceived, data[i : i + n])
        else:
            self._server(self.proto.dataReceived, data)

    def recv(self, n):
        while True:
            buf = self.transport.value()
            if len(buf) > self.rpos:
                out = buf[self.rpos : self.rpos + n]
                self.rpos += len(out)
                return out
            if self.transport.disconnecting or self.closed:
                return b''
            if not self._server(advance_to_next_timer):
                raise Deadlock('recv with no data and no pending timer')

    def close(self):
        if not self.closed:
            self.closed = True
            if self in FakeSock.live:
                FakeSock.live.remove(self)
            self._server(self.proto.connectionLost, Failure(ConnectionDone()))


_patched = {}


def install_store_seams():
    if 'connect' not in _patched:
        _patched['connect'] = dawgie.security.connect
        dawgie.security.connect = FakeSock
        _patched['subprocess'] = dawgie.db.util.subprocess
        dawgie.db.util.subprocess = _SubprocessShim()
        _patched['dbs_open'] = comms.DBSerializer.open
        comms.DBSerializer.open = staticmethod(lambda: None)
        # make use_tls() true => no legacy handshake wrapper on protocols
        dawgie.security._myself['file'] = 'x'


class StoreWorld:
    '''a scratch shelve store.  as_worker()/as_foreman() flip the DBI
    "reopened" flag the way a worker process / the pipeline process see it.'''

    _ids = itertools.count()

    def __init__(self, name=None):
        install_store_seams()
        self.root = os.path.join(
            common.scratch_root(), name or f'store{next(StoreWorld._ids)}'
        )
        shutil.rmtree(self.root, ignore_errors=True)
        for sub in ('db', 'dbs', 'stg', 'logs'):
            os.makedirs(os.path.join(self.root, sub))
        self.activate()
        dawgie.db.open()

    def activate(self):
        c = dawgie.context
        c.db_impl = 'shelve'
        c.db_name = 'verif'
        c.db_path = os.path.join(self.root, 'db')
        c.db_rotate_path = c.db_path
        c.data_dbs = os.path.join(self.root, 'dbs')
        c.data_stg = os.path.join(self.root, 'stg')
        c.data_log = os.path.join(self.root, 'logs')
        c.db_lock = False
        DBI()._DBI__reopened = False
        if DBI().is_open:
            DBI().close()
        FakeSock.live.clear()
        reset_reactor()

    def as_worker(self):
        DBI()._DBI__reopened = True

    def as_foreman(self):
        DBI()._DBI__reopened = False

    def reopen_from_disk(self):
        self.as_foreman()
        dawgie.db.close()
        dawgie.db.open()

    def close(self, remove=True):
        self.as_foreman()
        try:
            dawgie.db.close()
        finally:
            if remove:
                shutil.rmtree(self.root, ignore_errors=True)

    # convenient raw views
    def tables(self):
        t = DBI().tables
        return {n: dict(getattr(t, n)) for n in t._fields}

    def blobs(self):
        return sorted(os.listdir(dawgie.context.data_dbs))

    def staged(self):
        return sorted(os.listdir(dawgie.context.data_stg))


# ------------------------------------------------------------------ clock

import datetime as _dt
import types as _types


class VClock:
    '''virtual wall clock.  install(module) replaces the name `datetime` the
    module uses (either the datetime module or the datetime class) with a
    shim whose now() is the virtual instant.'''

    def __init__(self, start=None):
        self.now = start or _dt.datetime(2024, 1, 1, tzinfo=_dt.UTC)
        clock = self

        class VDT(_dt.datetime):
            @classmethod
            def now(cls, tz=None):
                n = clock.now
                if tz is None:
                    return cls(n.year, n.month, n.day, n.hour, n.minute,
                               n.second, n.microsecond)
                n = n.astimezone(tz)
                return cls(n.year, n.month, n.day, n.hour, n.minute,
                           n.second, n.microsecond, tzinfo=n.tzinfo)

        self.VDT = VDT
        ns = _types.SimpleNamespace()
        for k in dir(_dt):
            if not k.startswith('__'):
                setattr(ns, k, getattr(_dt, k))
        ns.datetime = VDT
        self.module_shim = ns
        self._saved = []

    def install(self, module, name='datetime'):
        old = getattr(module, name)
        self._saved.append((module, name, old))
        if isinstance(old, type) or (
            hasattr(old, '__mro__') and _dt.datetime in getattr(old, '__mro__', ())
        ):
            setattr(module, name, self.VDT)
        else:
            setattr(module, name, self.module_shim)

    def uninstall(self):
        for module, name, old in reversed(self._saved):
            setattr(module, name, old)
        self._saved.clear()

    def set(self, when):
        self.now = when

    def advance(self, seconds):
        self.now = self.now + _dt.timedelta(seconds=seconds)
