'''C20 - timer events are computable, land on their moment, keep recurring.

(a) schedule._delay under an injected clock: every specification in
    dow 0..6 / dom 1..31 / date (past, today, future) x time of day
    {00:00:00, 12:34:56, 23:59:59}  at  EVERY hour of 2023-01-01 .. 2028-12-31
    plus +-1 s around every midnight (month ends, leap days, year ends included):
    no exception; now+delay has the specified weekday / day of month / date and
    time of day; it lies no further ahead than one period (7 days; for a day of
    month: the distance between the previous and this occurrence of that day).
(b) recurrence: real schedule.periodics / defer / complete + farm on the virtual
    reactor and clock; engines with weekly / monthly / boot events (incl. two
    algorithms of one package with equal versions, an analyzer, two events on
    different days); boot instants before / after the moment on the event day and
    days before; events: fire next timer, dispatch, reply (success/failure), a
    software reload; explored breadth first over a horizon of 3 periods.
    Oracle: a firing queues exactly the known targets ('__all__' for an
    analyzer); a boot event fires exactly once per process (also across a
    reload); every occurrence k of a weekly / monthly event inside the horizon is
    served by a firing in [moment_k - 300 s, moment_k+1).
'''

import calendar
import datetime as dt
import itertools

from . import common, aegen

LEVEL = 'exploration'
UTC = dt.UTC
TIMES = [dt.time(0, 0, 0), dt.time(12, 34, 56), dt.time(23, 59, 59)]


def mk_event(**k):
    import dawgie
    return dawgie.EVENT(dawgie.ALG_REF(None, None),
                        dawgie.MOMENT(k.get('boot'), k.get('day'), k.get('dom'), k.get('dow'), k.get('time')))


def prev_dom(then, dom):
    '''previous occurrence of day-of-month dom before `then` (same time)'''
    y, m = then.year, then.month
    while True:
        m -= 1
        if m == 0:
            y, m = y - 1, 12
        if dom <= calendar.monthrange(y, m)[1]:
            return then.replace(year=y, month=m, day=dom)


def part_a(args):
    tier, seed, shard, nshards = args
    import dawgie.pl.schedule as sched
    from . import world

    ctx = common.Ctx('C20', tier, seed, LEVEL)
    clk = world.VClock(dt.datetime(2023, 1, 1, tzinfo=UTC))
    clk.install(sched, 'datetime')
    specs = []
    for t in TIMES:
        for d in range(7):
            specs.append(('dow', d, t))
        for d in range(1, 32):
            specs.append(('dom', d, t))
    events = {s: mk_event(**{s[0]: s[1], 'time': s[2]}) for s in specs}
    start = dt.datetime(2023, 1, 1, tzinfo=UTC)
    end = dt.datetime(2029, 1, 1, tzinfo=UTC)
    hours = int((end - start).total_seconds() // 3600)
    distinct = set()
    try:
        for h in range(shard, hours, nshards):
            base = start + dt.timedelta(hours=h)
            instants = [base]
            if base.hour == 0:
                instants += [base - dt.timedelta(seconds=1), base + dt.timedelta(seconds=1)]
            if base.hour == 12:
                instants.append(base + dt.timedelta(minutes=34, seconds=56))
            for now in instants:
                clk.set(now)
                for s, ev in events.items():
                    kind, val, t = s
                    ctx.count('delay_calls')
                    try:
                        delta = sched._delay(ev)
                    except Exception as e:  # noqa
                        ctx.violation(f'C20/delay-raises/{kind}/{type(e).__name__}',
                                      f'_delay({kind}={val} {t}) at {now} raised {e!r}',
                                      {'spec': [kind, val, str(t)], 'now': str(now)})
                        continue
                    then = now + delta
                    ok_time = (then.hour, then.minute, then.second) == (t.hour, t.minute, t.second)
                    if kind == 'dow':
                        ok_day = then.weekday() == val
                        period = dt.timedelta(days=7)
                    else:
                        ok_day = then.day == val
                        period = then - prev_dom(then, val)
                    if not (ok_time and ok_day):
                        ctx.violation(f'C20/delay-misses-the-moment/{kind}',
                                      f'_delay({kind}={val} {t}) at {now} designates {then}',
                                      {'spec': [kind, val, str(t)], 'now': str(now)})
                    elif delta > period:
                        ctx.violation(f'C20/delay-beyond-one-period/{kind}',
                                      f'_delay({kind}={val} {t}) at {now} designates {then}: {delta} ahead, '
                                      f'period is {period}', {'spec': [kind, val, str(t)], 'now': str(now)})
                    distinct.add((kind, val, delta.days))
                if base.hour in (0, 13) and base.day in (1, 15, 28):
                    # date specifications: past, today, future
                    for dd in (-400, -1, 0, 1, 40):
                        day = (now + dt.timedelta(days=dd)).date()
                        for t in TIMES[:2]:
                            ctx.count('delay_calls')
                            try:
                                delta = sched._delay(mk_event(day=day, time=t))
                            except Exception as e:  # noqa
                                ctx.violation(f'C20/delay-raises/day/{type(e).__name__}',
                                              f'_delay(day={day} {t}) at {now} raised {e!r}',
                                              {'spec': ['day', str(day), str(t)], 'now': str(now)})
                                continue
                            then = now + delta
                            if (then.date(), then.hour, then.minute, then.second) != (day, t.hour, t.minute, t.second):
                                ctx.violation('C20/delay-misses-the-moment/day',
                                              f'_delay(day={day} {t}) at {now} designates {then}',
                                              {'spec': ['day', str(day), str(t)], 'now': str(now)})
            if h % 5003 == 0:
                ctx.sample({'now': str(base), 'specs': len(events)})
    finally:
        clk.uninstall()
    out = ctx.export()
    out['distinct'] = len(distinct)
    return out


def part_gate(args):
    '''"every event specification the compliance rules accept": the whole grid
    of MOMENT field combinations (set / unset / ill-typed) goes through the
    real tools.compliant.rule_10; every accepted one must be computable by
    schedule._delay at every instant of a boundary menu'''
    tier, seed = args
    import sys
    import types
    import dawgie
    import dawgie.pl.schedule as sched
    import dawgie.tools.compliant as compliant
    from . import world, mini

    ctx = common.Ctx('C20', tier, seed, LEVEL)
    clk = world.VClock(dt.datetime(2024, 1, 1, tzinfo=UTC))
    clk.install(sched, 'datetime')
    boots = (None, True)
    days = (None, dt.date(2024, 2, 29), 'x')
    doms = (None, 1, 31, 'x')
    dows = (None, 0, 6, 1.5)
    times = (None, dt.time(12, 34, 56), 'x')
    instants = [dt.datetime(y, m, d, h, 0, 1, tzinfo=UTC) for y in (2023, 2024) for m in (1, 2, 12)
                for d in (1, 15, 28) for h in (0, 13)] + [dt.datetime(2024, 2, 29, 23, 59, 59, tzinfo=UTC),
                                                           dt.datetime(2024, 12, 31, 23, 59, 59, tzinfo=UTC)]

    def fac(*a, **k):
        return None
    fac.__module__ = 'verifpkg.ta'
    fac.__name__ = 'task'
    alg = mini.Alg('a')
    accepted = 0
    try:
        for boot, day, dom, dow, tm in itertools.product(boots, days, doms, dows, times):
            ev = dawgie.EVENT(dawgie.ALG_REF(fac, alg), dawgie.MOMENT(boot, day, dom, dow, tm))
            mod = types.ModuleType('verif_c20_gate')
            mod.events = lambda ev=ev: [ev]
            sys.modules['verif_c20_gate'] = mod
            ctx.count('gate_specs')
            try:
                ok = bool(compliant.rule_10('verif_c20_gate'))
            except Exception:  # noqa: an exception inside a rule is a rejection
                ok = False
            finally:
                sys.modules.pop('verif_c20_gate', None)
            if not ok:
                continue
            accepted += 1
            spec = {'boot': boot, 'day': str(day), 'dom': dom, 'dow': dow, 'time': str(tm)}
            for now in instants:
                clk.set(now)
                del sched.booted[:]
                ctx.count('delay_calls')
                try:
                    sched._delay(ev)
                except Exception as e:  # noqa
                    unset = 'no-time' if tm is None else 'other'
                    ctx.violation(f'C20/accepted-spec-not-computable/{unset}/{type(e).__name__}',
                                  f'rule_10 accepts MOMENT{(boot, day, dom, dow, tm)} but _delay at {now} raised {e!r}',
                                  {'spec': spec, 'now': str(now)})
                    break
    finally:
        clk.uninstall()
        del sched.booted[:]
    out = ctx.export()
    out['accepted'] = accepted
    return out


# ------------------------------------------------------------------ (b)

A = aegen.alg


def engines():
    t0 = [3, 0, 0]
    E = {}
    E['weekly'] = [A('ta', 'a', ev=[{'dow': 2, 'time': t0}])]
    E['weekly-analysis'] = [A('ta', 'a'), A('tz', 'z', 'analysis', inputs=[('ta', 'a', 's', None)],
                                            ev=[{'dow': 2, 'time': t0}])]
    # Monday is the legal, falsy day of week 0 (seeded C20-m12)
    E['weekly-monday'] = [A('ta', 'a', ev=[{'dow': 0, 'time': t0}])]
    E['monthly-15'] = [A('ta', 'a', ev=[{'dom': 15, 'time': t0}])]
    E['monthly-31'] = [A('ta', 'a', ev=[{'dom': 31, 'time': t0}])]
    E['two-weekly'] = [A('ta', 'a', ev=[{'dow': 2, 'time': t0}]), A('tb', 'b', ev=[{'dow': 4, 'time': t0}])]
    E['boot-pair'] = [A('ta', 'a', ev=[{'boot': True}]), A('ta', 'b', ev=[{'boot': True}])]
    E['boot+weekly'] = [A('ta', 'a', ev=[{'boot': True}, {'dow': 2, 'time': t0}])]
    # the non-recurring event is the LAST one defer() looks at
    E['weekly+boot'] = [A('ta', 'a', ev=[{'dow': 2, 'time': t0}, {'boot': True}])]
    E['weekly,boot-other-node'] = [A('ta', 'a', ev=[{'dow': 2, 'time': t0}]),
                                   A('ta', 'b', ev=[{'boot': True}])]
    out = {k: {'style': 'legacy', 'algs': v} for k, v in E.items()}
    # self-registering elements (events declared as DAWGIE_SCHEDULE on the class,
    # collected by dawgie.base.Factories); and the same with every element being
    # a class of one name nested in its own enclosing class
    pair = [A('ta', 'a', ev=[{'dow': 2, 'time': t0}]), A('ta', 'b', ev=[{'dom': 15, 'time': t0}])]
    out['auto:weekly+monthly-one-package'] = {'style': 'auto', 'algs': pair}
    out['auto:same-class-name-nested'] = {'style': 'auto', 'algs': pair, 'nest_same_name': True}
    return out


def occurrences(ev, boot, horizon_end):
    '''moments of a weekly / monthly event in [boot day start, horizon_end]'''
    out = []
    t = dt.time(*ev['time'])
    day = boot.date() - dt.timedelta(days=40)
    while True:
        m = dt.datetime.combine(day, t, tzinfo=UTC)
        if m > horizon_end + dt.timedelta(days=45):
            break
        if ('dow' in ev and m.weekday() == ev['dow']) or ('dom' in ev and m.day == ev['dom']):
            out.append(m)
        day += dt.timedelta(days=1)
    return out


class Driver:
    def __init__(self, name, desc, boot, periods):
        import dawgie.pl.schedule as sched
        from . import pipeworld, world

        self.name, self.desc = name, desc
        self.boot_at = boot
        self.w = pipeworld.PipeWorld(desc, ['A', 'B'], mode='ample')
        self.sched = sched
        self.world = world
        self.clock = world.VClock(boot)
        self.clock.install(sched, 'datetime')
        self.eng = self.w.eng
        self.periodic = [(self.eng.tag(a), e) for a in desc['algs'] for e in a['ev'] if not e.get('boot')]
        self.bootev = [self.eng.tag(a) for a in desc['algs'] for e in a['ev'] if e.get('boot')]
        span = 31 if any('dom' in e for _t, e in self.periodic) else 7
        self.horizon = boot + dt.timedelta(days=span * periods + 1)
        self.max_reload = 1 if self.bootev else 0

    def reset(self):
        import dawgie
        from twisted.internet import reactor
        w = self.w
        self.clock.set(self.boot_at)
        w.boot()
        self.world.reset_reactor()
        self.t0 = reactor.seconds()
        self.firings = []       # (tag, virtual time, todo after)
        self.reloads = 0
        self.journal_outages = 0
        self.exc = None
        self.dirty = True
        self.slept = 0
        self._periodics()

    def _periodics(self):
        import dawgie
        before = self.sets()
        try:
            self.sched.periodics(self.w.factories[dawgie.Factories.events])
        except Exception as e:  # noqa
            self.exc = e
        self.note_firings(before)

    def sets(self):
        return {t: set(n.get('todo')) for t, n in self.w.nodes.items()}

    def note_firings(self, before):
        after = self.sets()
        for t in after:
            grew = after[t] - before[t]
            if grew and self.w.nodes[t].get('event') == 'Periodic timer':
                self.firings.append((t, self.clock.now, tuple(sorted(after[t]))))

    def enabled(self):
        from twisted.internet import reactor
        evs = []
        # the farm dispatches every 5 s: virtual time only passes once pending
        # work has seen a dispatch (replies may take arbitrarily long)
        may_sleep = not self.w.inflight or self.slept < 1   # a unit may outlive one time step
        if self.dirty:
            evs.append(('tick',))
        elif not may_sleep:
            pass
        elif reactor.getDelayedCalls() and self.clock.now <= self.horizon:
            evs.append(('timer',))
        elif self.clock.now <= self.horizon:
            evs.append(('day',))     # nothing armed: let a day pass
        seen = set()
        for j, t, r, _u in self.w.inflight:
            if (j, t, r) not in seen:
                seen.add((j, t, r))
                evs.append(('reply', j, t, r, 'success'))
                evs.append(('reply', j, t, r, 'failure'))
                if self.journal_outages < 1:
                    # the completion arrives while the history journal cannot be
                    # written (one such outage per history)
                    evs.append(('reply', j, t, r, 'success!journal-outage'))
        if self.reloads < self.max_reload:
            evs.append(('reload',))
        return evs

    def apply(self, ev):
        from twisted.internet import reactor
        w = self.w
        before = self.sets()
        self.exc = None
        self.dirty = ev[0] != 'tick'
        if ev[0] in ('timer', 'day'):
            self.slept = self.slept + 1 if self.w.inflight else 0
        elif ev[0] == 'reply' and len(self.w.inflight) <= 1:
            self.slept = 0
        try:
            if ev[0] == 'timer':
                nxt = min(c.getTime() for c in reactor.getDelayedCalls())
                step = max(0.0, nxt - reactor.seconds())
                self.clock.advance(step)
                try:
                    reactor.advance(step)
                except Exception as e:  # noqa
                    self.exc = e
            elif ev[0] == 'day':
                self.clock.advance(86400)
                reactor.advance(86400)
            elif ev[0] == 'tick':
                w.ev_tick()
            elif ev[0] == 'reply':
                _k, j, t, r, o = ev
                idx = [i for i, u in enumerate(w.inflight) if tuple(u[:3]) == (j, t, r)]
                if o.endswith('!journal-outage'):
                    o = o.split('!')[0]
                    self.journal_outages += 1
                    w.journal_fault = True
                try:
                    w.ev_reply(idx[0], o, None)
                finally:
                    w.journal_fault = False
            elif ev[0] == 'reload':
                import dawgie
                self.reloads += 1
                w.factories = self.eng.load(common.scratch_root())
                self.sched.build(w.factories, ({}, {}, {}), ({}, {}, {}, {}))
                w.nodes = {}
                for root in self.sched.ae.at:
                    for n in root.iter():
                        w.nodes[n.tag] = n
                before = self.sets()
                self._periodics()
                return
        except Exception as e:  # noqa
            self.exc = e
        self.note_firings(before)

    def canon(self):
        from twisted.internet import reactor
        w = self.w
        now = reactor.seconds()
        nodes = tuple((t, tuple(sorted(n.get('todo'))), tuple(sorted(n.get('doing'))), n.get('status').name)
                      for t, n in sorted(w.nodes.items()))
        timers = tuple(sorted(round(c.getTime() - now) for c in reactor.getDelayedCalls()))
        return (round((self.clock.now - self.boot_at).total_seconds()), nodes,
                tuple(n.tag for n in self.sched.que), timers,
                tuple(sorted((j, t, r) for j, t, r, _u in w.inflight)),
                tuple((t, round((at - self.boot_at).total_seconds())) for t, at, _td in self.firings),
                self.reloads, self.dirty, self.slept, self.journal_outages)

    def close(self):
        self.clock.uninstall()


def check(dr, ev, report, final=False):
    w = dr.w
    if dr.exc is not None:
        report(f'C20/recurrence/raises/{type(dr.exc).__name__}/{ev[0]}', f'event {ev} raised {dr.exc!r}')
    # a unit the scheduler believes is executing exists somewhere (else the
    # event of its algorithm can never fire again: defer() waits for it)
    import dawgie.pl.farm as farm
    flying = {(j, t) for j, t, _r, _u in w.inflight} | {(m.jobid, m.target or '__all__') for m in farm._cluster}
    for j in farm._jobs:
        for t in j.get('do'):
            flying.add((j.tag, t))
    for tag, n in w.nodes.items():
        for t in n.get('doing'):
            if (tag, t) not in flying and (tag, '__all__') not in flying:
                report('C20/unit-believed-executing-but-nowhere',
                       f'{tag}[{t}] is in doing after {ev} but no such unit is queued or with a worker: '
                       f'its periodic event cannot fire again')
    # an entry of the work queue has work: a node queued with nothing pending
    # or executing never leaves, and defer() treats its algorithm as busy for ever
    for n in dr.sched.que:
        if not (n.get('todo') or n.get('doing') or n.get('do')):
            report('C20/queue-entry-with-nothing-to-do',
                   f'{n.tag} sits in the work queue after {ev} with empty todo / doing '
                   f'({[m.tag for m in dr.sched.que].count(n.tag)} entries for it)')
    # what a firing queues
    for tag, at, todo in dr.firings:
        kind = dr.eng.kind(tag)
        want = ('__all__',) if kind == 'analysis' else tuple(sorted(w.targets))
        if not set(want) <= set(todo) or (set(todo) - set(want)):
            report(f'C20/firing-queues-wrong-targets/{kind}', f'{tag} fired at {at}: todo {todo}, known targets {want}')
    # boot events: exactly once per process
    for tag in dr.bootev:
        n = sum(1 for t, at, _td in dr.firings if t == tag and abs((at - dr.boot_at).total_seconds()) < 1
                or (t == tag and dr.reloads and False))
        boots = [at for t, at, _td in dr.firings if t == tag]
        weekly = [e for t, e in dr.periodic if t == tag]
        if not weekly:
            if len(boots) == 0:
                report('C20/boot-event-never-fired', f'{tag}: boot event did not fire at boot')
            elif len(boots) > 1:
                report('C20/boot-event-fired-again' + ('/after-reload' if dr.reloads else ''),
                       f'{tag}: boot event fired {len(boots)} times: {boots}')
    # recurrence: every occurrence passed so far was served
    now = dr.clock.now
    for tag, e in dr.periodic:
        occ = occurrences(e, dr.boot_at, dr.horizon)
        for k in range(len(occ) - 1):
            lo, hi = occ[k] - dt.timedelta(seconds=300), occ[k + 1]
            if occ[k] < dr.boot_at - dt.timedelta(days=0) and occ[k].date() != dr.boot_at.date():
                continue            # before the process existed
            if occ[k] < dr.boot_at and occ[k].date() == dr.boot_at.date():
                pass                # earlier today: the code serves it at boot
            if hi > now or hi > dr.horizon:
                continue            # window still open / beyond the horizon
            served = [at for t, at, _td in dr.firings if t == tag and lo <= at < hi]
            if not served:
                kind = 'dow' if 'dow' in e else 'dom'
                nth = sum(1 for x in occ[:k + 1] if x >= dr.boot_at - dt.timedelta(days=1))
                report(f'C20/occurrence-not-served/{kind}/{"first" if nth <= 1 else "later"}',
                       f'{tag}: occurrence {occ[k]} was not served by any firing before {hi} '
                       f'(firings: {[str(at) for t, at, _ in dr.firings if t == tag]})')
                break


def job(args):
    tier, seed, name, desc, boot, periods = args
    from . import explore
    dr = Driver(name, desc, boot, periods)
    try:
        def build(hist, report=None):
            dr.reset()
            if report is not None and not hist:
                check(dr, ('boot',), report)
            for i, ev in enumerate(hist):
                dr.apply(ev)
                if report is not None and i == len(hist) - 1:
                    check(dr, ev, report)
            return dr.canon()

        def expand(h):
            found = []
            rep = lambda hh: (lambda sig, what: found.append((sig, what, [list(e) for e in hh])))  # noqa: E731
            here = []
            build(h, (lambda sig, what: here.append(sig)) if h else rep(h))
            if here:
                return [], []     # already reported by the parent: nothing is explored beyond a violating state
            evs = dr.enabled()
            succ = []
            for ev in evs:
                succ.append((build(h + [ev], rep(h + [ev])), ev))
            return succ, found

        k0 = build([])
        res = explore.replay_bfs(expand, k0, procs=1, cap=60000)
        viol = {}
        for sig, what, hist in res['violations']:
            v = viol.setdefault(sig, {'what': f'[{name} boot={boot}] {what}',
                                      'replay': {'engine': name, 'desc': desc, 'boot': str(boot), 'periods': periods,
                                                 'history': hist}, 'count': 0})
            v['count'] += 1
        return {'name': name, 'boot': str(boot), 'states': res['states'], 'transitions': res['transitions'],
                'violations': viol, 'capped': res['capped']}
    finally:
        dr.close()


def boots():
    # 2024-01-10 is a Wednesday (dow 2); event time 03:00:00
    return [dt.datetime(2024, 1, 10, 1, 0, 0, tzinfo=UTC),    # event day, before the moment
            dt.datetime(2024, 1, 10, 2, 57, 0, tzinfo=UTC),   # inside the 300 s firing window
            dt.datetime(2024, 1, 10, 12, 0, 0, tzinfo=UTC),   # event day, after the moment
            dt.datetime(2024, 1, 8, 12, 0, 0, tzinfo=UTC),    # two days before
            dt.datetime(2024, 1, 31, 1, 0, 0, tzinfo=UTC)]    # day 31, before the moment


def run(ctx):
    nsh = 48
    distinct = 0
    for r in common.pmap(part_a, [(ctx.tier, ctx.seed, s, nsh) for s in range(nsh)]):
        ctx.merge(r)
        distinct = max(distinct, r['distinct'])
    accepted = 0
    for r in common.pmap(part_gate, [(ctx.tier, ctx.seed)]):
        ctx.merge(r)
        accepted = r['accepted']
    jobs = []
    periods = 3
    for name, desc in engines().items():
        for b in boots():
            if ctx.quick() and name in ('two-weekly', 'weekly-analysis') and b != boots()[0] and b != boots()[2]:
                continue
            jobs.append((ctx.tier, ctx.seed, name, desc, b, periods))
    states = 0
    for r in common.pmap(job, jobs):
        states += r['states']
        ctx.count('recurrence_states', r['states'])
        ctx.count('recurrence_transitions', r['transitions'])
        for sig, v in r['violations'].items():
            mine = ctx.violations.get(sig)
            if mine is None or len(v['replay']['history']) < len(mine['replay']['history']):
                if mine is not None:
                    v['count'] += mine['count']
                ctx.violations[sig] = v
            else:
                mine['count'] += v['count']
        if r['capped']:
            ctx.cap(f'state cap reached for {r["name"]} boot {r["boot"]}')
        ctx.sample({k: r[k] for k in ('name', 'boot', 'states', 'transitions')})
    c = ctx.counters
    ctx.assumptions += [
        'a moment earlier on the current day is accepted (the code treats it as due); nothing is demanded about '
        'how often an occurrence fires beyond "at least once in its period"',
        'clock: datetime inside pl.schedule replaced by a shim bound to the virtual reactor time']
    cov = {
        'evaluations': c.get('delay_calls', 0) + c.get('recurrence_transitions', 0),
        'distinct_nontrivial': distinct + states,
        'gate_specs_accepted': accepted,
        'rule': '(gate) all 288 MOMENT field combinations (unset / set / ill-typed) through the real rule_10, every '
                'accepted one through _delay at 38 boundary instants; '
                '(a) 114 specifications x every hour of 2023-2028 (+-1 s around midnights, plus date specs); '
                '(b) 9 engines (7 deprecated-style, 2 self-registering incl. same-named nested classes) x 5 boot instants, horizon 3 periods, all interleavings of timer / dispatch / reply / '
                'reload; distinct_nontrivial = distinct (spec, whole days ahead) + recurrence states',
        'recurrence_states': states,
    }
    return common.finish(ctx, cov, exhaustive=True)


def replay(data):
    r = data['replay']
    if 'history' not in r:
        import dawgie.pl.schedule as sched
        from . import world
        now = dt.datetime.fromisoformat(r['now'])
        clk = world.VClock(now)
        clk.install(sched, 'datetime')
        kind, val, t = r['spec']
        hh, mm, ss = (int(x) for x in t.split(':'))
        val = dt.date.fromisoformat(val) if kind == 'day' else int(val)
        try:
            d = sched._delay(mk_event(**{kind: val, 'time': dt.time(hh, mm, ss)}))
            print(f'_delay({kind}={val} {t}) at {now} = {d} -> {now + d}')
        except Exception as e:  # noqa
            print('raised', repr(e))
        clk.uninstall()
        return 0
    dr = Driver(r['engine'], r['desc'], dt.datetime.fromisoformat(r['boot']), r['periods'])
    hits = []
    dr.reset()
    check(dr, ('boot',), lambda s, t: hits.append(s) or print('  !!', s, t))
    for ev in [tuple(e) for e in r['history']]:
        dr.apply(ev)
        print('event', ev, 'now', dr.clock.now, 'firings', [(t, str(at)) for t, at, _ in dr.firings],
              'que', [n.tag for n in dr.sched.que])
        check(dr, ev, lambda s, t: hits.append(s) or print('  !!', s, t))
    dr.close()
    bad = data['signature'] in hits
    print('VIOLATES' if bad else 'ok')
    return 1 if bad else 0
