'''C13 - the database lock is exclusive, survives client crashes, is granted.

State graph of N (2 quick, 3 thorough) real comms.Worker server protocol
instances sharing dawgie.context.db_lock on the deterministic reactor, explored
breadth first to a fixpoint.  Events: acquire request, release request (only
by a client that was told it holds the lock), connection loss at EVERY
protocol step (before/after the first poll, while waiting, while holding, after
release, between loseConnection and connectionLost), "advance to the next due
timer" (LoopingCall polls, delayed stops) and "advance one second" (so that the
polls of different clients get every relative phase).
Each transition re-executes the whole history on fresh protocol objects (live
Twisted objects are not copied); canonical state = per-connection protocol
fields + pending timers as offsets from now + what each client was told.
'''

import collections
import pickle
import struct

from . import common

LEVEL = 'model_checking'


def c_lost(proto):
    '''the harness's own knowledge of whether this protocol's connection dropped'''
    from dawgie.db.shelve import comms
    w = comms.Worker._verif_world[0]
    for c in w.all:
        if c['p'] is proto:
            return c['lost']
    return False


class LockWorld:
    # the free-text label a client sends with its acquire request
    NAMES = {
        'distinct': lambda i: f'client{i}',
        'same': lambda i: 'load: t.a',              # every client uses one label
        'falsy': lambda i: ('', None, 'x')[i % 3],  # empty / missing labels are legal
    }

    def __init__(self, nclients, max_conn=2, names='distinct'):
        import dawgie.context
        self.names = names
        self.max_reopen = 0
        self.max_conn = max_conn
        import dawgie.db.shelve.comms as comms
        from . import world

        self.comms = comms
        self.world = world
        self.n = nclients
        self.store = world.StoreWorld()
        self.polls = []
        self._wrap()

    def _wrap(self):
        comms = self.comms
        if getattr(comms.Worker, '_verif_wrapped', False):
            comms.Worker._verif_world[0] = self
            return
        comms.Worker._verif_wrapped = True
        comms.Worker._verif_world = [self]
        orig = comms.Worker._do_acquire

        def _do_acquire(slf):
            w = comms.Worker._verif_world[0]
            before = slf._Worker__has_lock
            free = not __import__('dawgie.context').context.db_lock
            live = not (slf._Worker__looping_call_stopped or getattr(slf, '_Worker__connection_lost', c_lost(slf)))
            out = orig(slf)
            w.polls.append((id(slf), live, free, (not before) and slf._Worker__has_lock))
            return out

        comms.Worker._do_acquire = _do_acquire

    def reset(self):
        import dawgie.context
        self.comms.Worker._verif_world[0] = self
        self.world.reset_reactor()
        dawgie.context.db_lock = False
        self.conns = [None] * self.n       # current connection per client slot
        self.all = []                      # every connection ever made
        self.polls = []
        self.nreopen = 0

    def close(self):
        self.store.close()

    # ---- connection bookkeeping
    def new_conn(self, i):
        from twisted.internet.testing import StringTransport
        p = self.comms.Worker(None)
        t = StringTransport()
        p.makeConnection(t)
        c = {'p': p, 't': t, 'rpos': 0, 'told': False, 'released': False, 'lost': False,
             'slot': i, 'got': [], 'ever_lost_then_locked': False}
        self.conns[i] = c
        self.all.append(c)
        return c

    def send(self, c, func, value=None):
        if c['lost'] or c['t'].disconnecting:
            return
        req = self.comms.COMMAND(func, None, None, value)
        msg = pickle.dumps(req, pickle.HIGHEST_PROTOCOL)
        c['p'].dataReceived(struct.pack('>I', len(msg)) + msg)

    def drain(self):
        '''decode what the server wrote to each client since last time'''
        news = []
        for c in self.all:
            buf = c['t'].value()
            while len(buf) - c['rpos'] >= 4:
                n = struct.unpack('>I', buf[c['rpos']:c['rpos'] + 4])[0]
                if len(buf) - c['rpos'] - 4 < n:
                    break
                m = pickle.loads(buf[c['rpos'] + 4:c['rpos'] + 4 + n])
                c['rpos'] += 4 + n
                c['got'].append(m)
                news.append((c, m))
        return news

    # ---- events
    def enabled(self):
        from twisted.internet import reactor
        evs = []
        for i in range(self.n):
            c = self.conns[i]
            if c is None or c['lost']:
                if sum(1 for x in self.all if x['slot'] == i) < self.max_conn:
                    evs.append(('acq', i))
                continue
            if c['told'] and not c['released']:
                evs.append(('rel', i))
            evs.append(('drop', i))
        if self.nreopen < self.max_reopen:
            # the pipeline closes and opens its data base again (archive done,
            # reload) while clients hold or wait for the lock
            evs.append(('reopen',))
        if reactor.getDelayedCalls():
            evs.append(('adv',))
        evs.append(('sec',))
        return evs

    def apply(self, ev):
        from twisted.internet import reactor
        from twisted.python.failure import Failure
        from twisted.internet.error import ConnectionDone
        Func = self.comms.Func
        self.polls = []
        before = {id(c['p']): c['p']._Worker__has_lock for c in self.all}
        self.raised = None
        try:
            if ev[0] == 'acq':
                c = self.new_conn(ev[1])
                before[id(c['p'])] = False
                self.send(c, Func.acquire, self.NAMES[self.names](ev[1]))   # NAMES may be replaced per instance
            elif ev[0] == 'rel':
                c = self.conns[ev[1]]
                c['released'] = True
                self.send(c, Func.release)
            elif ev[0] == 'drop':
                c = self.conns[ev[1]]
                c['lost'] = True
                c['p'].connectionLost(Failure(ConnectionDone()))
            elif ev[0] == 'reopen':
                import contextlib
                import io
                import dawgie.db
                import dawgie.security as sec
                self.nreopen += 1
                saved_me = dict(sec._myself)
                saved_open = self.comms.DBSerializer.open
                sec._myself.clear()        # plain TCP listener on the virtual reactor
                self.comms.DBSerializer.open = self.world._patched['dbs_open']
                try:
                    with contextlib.redirect_stdout(io.StringIO()):
                        dawgie.db.close()
                        dawgie.db.open()
                finally:
                    self.comms.DBSerializer.open = saved_open
                    sec._myself.update(saved_me)
            elif ev[0] == 'adv':
                self.world.advance_to_next_timer()
            elif ev[0] == 'sec':
                reactor.advance(1.0)
        except Exception as e:  # noqa  (the real reactor would log it and go on)
            self.raised = e
        news = self.drain()
        return before, news

    def canon(self):
        import dawgie.context
        from twisted.internet import reactor
        now = reactor.seconds()
        conns = []
        for c in self.all:
            p = c['p']
            lc = p._Worker__looping_call
            timers = sorted(round(d.getTime() - now, 3) for d in reactor.getDelayedCalls()
                            if getattr(d.func, '__self__', None) is lc or d.func is lc)
            dead = (c['lost'] and not p._Worker__has_lock and not lc.running and not timers)
            if dead:
                continue  # a finished connection has no future
            conns.append((c['slot'], sum(1 for x in self.all if x['slot'] == c['slot']), c['lost'], c['told'], c['released'], p._Worker__has_lock,
                          p._Worker__looping_call_stopped, getattr(p, '_Worker__connection_lost', c['lost']), lc.running,
                          c['t'].disconnecting, tuple(timers), self.conns[c['slot']] is c))
        used = tuple(sum(1 for x in self.all if x['slot'] == i) for i in range(self.n))
        return (bool(dawgie.context.db_lock), used, tuple(sorted(conns)), self.nreopen)


def check(w, ev, before, news, report):
    import dawgie.context
    Mutex = w.comms.Mutex
    if getattr(w, 'raised', None) is not None:
        report(f'C13/protocol-raises/{type(w.raised).__name__}/{ev[0]}',
               f'event {ev} raised {w.raised!r} inside the server protocol')
    holders = [c for c in w.all if c['p']._Worker__has_lock]
    if len(holders) > 1:
        report('C13/two-holders', f'{len(holders)} connections own the lock')
    if bool(dawgie.context.db_lock) != bool(holders):
        report('C13/lock-bit-disagrees' + ('/lost-holder' if any(c['lost'] for c in holders) else
                                            '/bit-set-without-owner' if not holders else ''),
               f'db_lock={dawgie.context.db_lock} but owners={[c["slot"] for c in holders]}')
    for c in holders:
        if c['lost']:
            report('C13/dropped-holder-keeps-lock',
                   f'connection of client {c["slot"]} is gone but still owns the lock')
    for c, m in news:
        if m is Mutex.unlock or m == Mutex.unlock and isinstance(m, type(Mutex.unlock)):
            acquired_now = (not before.get(id(c['p']), False)) and c['p']._Worker__has_lock
            if not c['p']._Worker__has_lock:
                report('C13/told-it-holds-but-does-not',
                       f'client {c["slot"]} was sent "lock is yours" but does not own the lock')
            elif not acquired_now:
                report('C13/told-twice', f'client {c["slot"]} was sent "lock is yours" again')
            c['told'] = True
    for c in w.all:
        if c['lost'] and (not before.get(id(c['p']), False)) and c['p']._Worker__has_lock:
            report('C13/dropped-waiter-acquires', f'client {c["slot"]} acquired the lock after its connection dropped')
    # step liveness: a live waiter polled while the lock was free => it (or an
    # earlier poller in the same instant) got it
    for pid, live, free, got in w.polls:
        if live and free and not got:
            report('C13/free-lock-not-granted-at-poll', 'a live waiter polled while the lock was free and was refused')
    # timers of dropped waiters die
    from twisted.internet import reactor
    for c in w.all:
        lc = c['p']._Worker__looping_call
        if c['lost'] and lc.running:
            pend = [d for d in reactor.getDelayedCalls() if d.func == lc.stop]
            if not pend:
                report('C13/poller-of-dropped-client-never-stops',
                       f'client {c["slot"]} dropped, its poll timer keeps running and no stop is scheduled')


def grant_within_period(w, report):
    '''from the current live state: if the lock is free and a live waiter
    exists, advancing timers for one poll period (3 s) must grant it'''
    import dawgie.context
    from twisted.internet import reactor
    waiters = [c for c in w.all if not c['lost'] and c['p']._Worker__looping_call.running
               and not c['p']._Worker__looping_call_stopped]
    if dawgie.context.db_lock or not waiters:
        return False
    t0 = reactor.seconds()
    while reactor.getDelayedCalls() and reactor.seconds() - t0 <= 3.0 + 1e-9:
        nxt = min(d.getTime() for d in reactor.getDelayedCalls())
        if nxt - t0 > 3.0 + 1e-9:
            break
        try:
            reactor.advance(max(0.0, nxt - reactor.seconds()))
        except Exception as e:  # noqa  (the real reactor would log it; the poll loop is dead)
            report(f'C13/protocol-raises/{type(e).__name__}/poll',
                   f'a poll of a waiting client raised {e!r} inside the server protocol')
            return True
        if dawgie.context.db_lock:
            return True
    report('C13/waiter-starves-with-free-lock',
           'lock free, a live waiter polling, but nobody is granted the lock within one poll period')
    return True


def job(args):
    tier, seed, nclients, cap, max_conn = args[:5]
    names = args[5] if len(args) > 5 else 'distinct'
    w = LockWorld(nclients, max_conn, names)
    w.max_reopen = args[6] if len(args) > 6 else 0
    try:
        def build(hist, report=None, upto=None):
            w.reset()
            for i, ev in enumerate(hist):
                before, news = w.apply(ev)
                if report is not None and i == len(hist) - 1:
                    check(w, ev, before, news, report)
                else:
                    for c, m in news:
                        if m == w.comms.Mutex.unlock:
                            c['told'] = True
            return w.canon()

        k0 = build([])
        parent = {k0: None}
        hist_of = {k0: []}
        frontier = collections.deque([k0])
        transitions = 0
        viol = {}
        liveness_checked = 0
        capped = False
        while frontier:
            k = frontier.popleft()
            h = hist_of.pop(k)
            build(h)
            evs = w.enabled()
            # graph liveness probe on this state (consumes the live world)
            found = []
            if grant_within_period(w, lambda s, t: found.append((s, t))):
                liveness_checked += 1
            for s, t in found:
                v = viol.setdefault(s, {'what': t, 'replay': {'clients': nclients, 'names': names, 'history': [list(e) for e in h]}, 'count': 0})
                v['count'] += 1
            for ev in evs:
                found = []
                nk = build(h + [ev], lambda s, t: found.append((s, t)))
                transitions += 1
                for s, t in found:
                    v = viol.setdefault(s, {'what': t, 'replay': {'clients': nclients, 'names': names,
                                                                   'history': [list(e) for e in h + [ev]]}, 'count': 0})
                    v['count'] += 1
                if nk not in parent:
                    if cap and len(parent) >= cap:
                        capped = True
                        continue
                    parent[nk] = (k, ev)
                    hist_of[nk] = h + [ev]
                    frontier.append(nk)
        # determinism: replay a few histories twice
        return {'clients': nclients, 'names': names, 'max_conn': max_conn, 'states': len(parent), 'transitions': transitions,
                'violations': viol, 'liveness_probes': liveness_checked, 'capped': capped,
                'digest': common.digest(sorted(repr(k) for k in parent))}
    finally:
        w.close()


def long_run(args):
    '''one long history (not an exploration): 150 rounds of a holder and a
    waiter, every client under a label never used before, 300 labels in all.
    What the lock server remembers about past clients must never get in the way:
    in every round the waiter is granted within one poll period of the release'''
    tier, seed = args
    ctx = common.Ctx('C13', tier, seed, LEVEL)
    w = LockWorld(2, 10 ** 6, 'distinct')
    counter = [0]

    def fresh(_i):
        counter[0] += 1
        return f'job-{counter[0]:04d}: load'

    w.NAMES = dict(LockWorld.NAMES, distinct=fresh)
    try:
        w.reset()
        for rnd in range(150):
            rep = {'tier': 'long-run', 'round': rnd}
            steps = [('acq', 0), ('adv',), ('acq', 1), ('adv',), ('rel', 0)]
            bad = None
            for ev in steps:
                if ev[0] == 'rel' and not w.conns[0]['told']:
                    bad = f'round {rnd}: the holder was never told it holds the lock'
                    break
                _before, news = w.apply(ev)
                for c, m in news:
                    if m == w.comms.Mutex.unlock:
                        c['told'] = True
                if w.raised is not None:
                    bad = f'round {rnd}, event {ev}: the server raised {w.raised!r}'
                    break
            if bad is None:
                for _ in range(4):
                    if w.conns[1]['told']:
                        break
                    _before, news = w.apply(('adv',))
                    for c, m in news:
                        if m == w.comms.Mutex.unlock:
                            c['told'] = True
                    if w.raised is not None:
                        bad = f'round {rnd}: the server raised {w.raised!r} while the waiter polled'
                        break
                else:
                    bad = bad or f'round {rnd} (label #{counter[0]}): the lock is free but the waiter is not granted'
            ctx.count('long_run_rounds')
            if bad:
                ctx.violation('C13/long-run/waiter-not-served-after-many-clients', bad, rep)
                break
            w.apply(('rel', 1))
            w.apply(('drop', 0))
            w.apply(('drop', 1))
            w.apply(('adv',))
            w.apply(('adv',))
    finally:
        w.close()
    return ctx.export()


def client_ops(args):
    '''the real lock client (shelve.model.Interface load / update, which wrap
    their table traffic in comms.acquire / comms.release) against the real
    server over the loopback: however an operation ends - normally, aborted by
    the pipeline, with an invalid value, with an unpicklable value - the lock is
    free afterwards and the next operation gets it'''
    tier, seed = args
    import dawgie
    import dawgie.context
    import dawgie.db
    from dawgie.db.shelve.state import DBI
    from . import world, mini

    ctx = common.Ctx('C13', tier, seed, LEVEL)
    endings = ('normal', 'aborted', 'invalid-value', 'unpicklable-value')
    for op in ('load', 'update'):
        for ending in endings:
            if op == 'load' and ending not in ('normal', 'aborted'):
                continue
            w = world.StoreWorld()
            try:
                val = mini.Val('c0')
                if ending == 'invalid-value':
                    val = object()
                elif ending == 'unpicklable-value':
                    val = mini.Val(lambda: None)
                a = mini.Alg('a', svs=[mini.SV('s', values={'x': mini.Val('first'), 'y': val})])
                if ending == 'aborted':
                    a.abort = lambda: True
                b = mini.Bot('t', 1, 'A', [a])
                DBI()._DBI__reopened = True
                ctx.count('client_ops')
                outcome = 'returned'
                try:
                    ds = dawgie.db.connect(a, b, 'A')
                    getattr(ds, op)()
                except BaseException as e:  # noqa
                    outcome = type(e).__name__
                rep = {'tier': 'client', 'op': op, 'ending': ending, 'outcome': outcome}
                holders = [p for p in world.FakeSock.live if getattr(p, '_Worker__has_lock', False)] \
                    if hasattr(world.FakeSock, 'live') else []
                if dawgie.context.db_lock or holders:
                    ctx.violation(f'C13/client/lock-held-after-operation/{op}/{ending}',
                                  f'{op} ended ({outcome}) but the lock bit is {dawgie.context.db_lock!r}', rep)
                    dawgie.context.db_lock = False
                    continue
                # the next client is served
                a2 = mini.Alg('b', svs=[mini.SV('s', values={'x': mini.Val('next')})])
                b2 = mini.Bot('t', 1, 'A', [a2])
                try:
                    dawgie.db.connect(a2, b2, 'A').update()
                except BaseException as e:  # noqa
                    ctx.violation(f'C13/client/next-client-not-served/{op}/{ending}',
                                  f'after {op} ({ending}: {outcome}) the next update raised {e!r}', rep)
            finally:
                DBI()._DBI__reopened = False
                w.close()
    return ctx.export()


def run(ctx):
    for r in common.pmap(client_ops, [(ctx.tier, ctx.seed)]):
        ctx.merge(r)
    for r in common.pmap(long_run, [(ctx.tier, ctx.seed)]):
        ctx.merge(r)
    # (clients, state cap, connections per client in one history)
    jobs = [(ctx.tier, ctx.seed, 2, None, 2)]
    if ctx.quick():
        jobs.append((ctx.tier, ctx.seed, 3, None, 1))
    else:
        jobs.append((ctx.tier, ctx.seed, 2, None, 3))
        jobs.append((ctx.tier, ctx.seed, 3, 400000, 2))
    # the same spaces with all clients under one label and with empty labels
    jobs.append((ctx.tier, ctx.seed, 2, None, 2, 'distinct', 1))     # with one re-open of the data base
    for names in ('same', 'falsy'):
        jobs.append((ctx.tier, ctx.seed, 2, None, 2, names))
        jobs.append((ctx.tier, ctx.seed, 3, None, 1, names))
    states = transitions = 0
    per = []
    for r in common.pmap(job, jobs):
        states += r['states']
        transitions += r['transitions']
        for sig, v in r['violations'].items():
            mine = ctx.violations.get(sig)
            if mine is None:
                ctx.violations[sig] = v
            else:
                mine['count'] += v['count']
        if r['capped']:
            ctx.cap(f'{r["clients"]} clients: state cap reached ({r["states"]} states explored breadth first)')
        per.append({k: r[k] for k in ('clients', 'names', 'max_conn', 'states', 'transitions', 'liveness_probes', 'digest', 'capped')})
        ctx.sample({k: r[k] for k in ('clients', 'states', 'transitions')})
    ctx.assumptions += [
        'clients send release only after being told they hold the lock (as comms.acquire/release and Interface do)',
        'timers fire in virtual-time order; simultaneous timers in the order Twisted keeps them']
    cov = {'states': states, 'transitions': transitions,
           'traces_validated_against_impl': transitions,
           'explanation': 'every transition re-executes its whole history on fresh comms.Worker objects',
           'per_configuration': per}
    return common.finish(ctx, cov, exhaustive=True)


def replay(data):
    r = data['replay']
    w = LockWorld(r['clients'], 9, r.get('names', 'distinct'))
    try:
        w.reset()
        hits = []
        for ev in [tuple(e) for e in r['history']]:
            before, news = w.apply(ev)
            check(w, ev, before, news, lambda s, t: hits.append(s) or print('  !!', s, t))
            print('event', ev, 'db_lock', __import__('dawgie.context').context.db_lock,
                  'owners', [c['slot'] for c in w.all if c['p']._Worker__has_lock],
                  'sent', [(c['slot'], repr(m)) for c, m in news])
        grant_within_period(w, lambda s, t: hits.append(s) or print('  !!', s, t))
        bad = data['signature'] in hits
        print('VIOLATES' if bad else 'ok')
        return 1 if bad else 0
    finally:
        w.close()
