'''C07 - content-addressed store: novelty signal, single copy, no dangling ref.

Crash-free part: every sequence of <= N updates over an alphabet of
(run, target, algorithm, content) with repeating contents goes through the real
Interface.update (worker side, loopback wire, real staging + digest + move);
after every update: the isnew flag equals "digest name absent before", one file
per distinct content, every file re-hashes (hashlib md5+sha1) to its own name,
every catalogue value names an existing file, staging area empty.

Crash part (fault enumeration): for every selected history the last update is
re-executed in a forked child on a private copy of the store directory and the
child is killed (os._exit) immediately before its k-th call into posix/_io, for
EVERY k.  A second forked child re-opens the directory from disk and checks
that the catalogue opens, every catalogue entry refers to an existing stored
file then repeats the interrupted update
and re-checks the crash-free oracle.
'''

import hashlib
import itertools
import os
import pickle
import shutil
import sys

from . import common

LEVEL = 'fault_enumeration'


def do_update(op):
    import dawgie.db
    from dawgie.db.shelve.state import DBI
    from . import mini

    run, tgt, alg, content = op
    vals = {'x': mini.Val(content)} if not isinstance(content, tuple) else {
        k: mini.Val(c) for k, c in zip('xyz', content)}
    a = mini.Alg(alg, svs=[mini.SV('s', values=vals)])
    b = mini.Bot('t', run, tgt, [a])
    DBI()._DBI__reopened = True
    try:
        dawgie.db.connect(a, b, tgt).update()
    finally:
        DBI()._DBI__reopened = False
    return b.new_values()


def expected_name(content):
    '''digest name the store must use, computed independently'''
    import dawgie
    from . import mini
    data = pickle.dumps(mini.Val(content), pickle.HIGHEST_PROTOCOL)
    return hashlib.md5(data).hexdigest() + '_' + hashlib.sha1(data).hexdigest()


def contents(op):
    c = op[3]
    return list(c) if isinstance(c, tuple) else [c]


def oracle(ctx, w, ops, flags, rep, phase, allow_leftovers=False):
    import dawgie.context
    from dawgie.db.shelve.state import DBI

    dbs = dawgie.context.data_dbs
    files = sorted(f for f in os.listdir(dbs) if os.path.isfile(os.path.join(dbs, f)))
    names = {expected_name(c) for op in ops for c in contents(op)}
    if not allow_leftovers and set(files) != names:
        ctx.violation(f'C07/single-copy/{phase}',
                      f'store holds {len(files)} files {files}, distinct contents {sorted(names)}', rep)
    for f in files:
        with open(os.path.join(dbs, f), 'rb') as fh:
            data = fh.read()
        want = hashlib.md5(data).hexdigest() + '_' + hashlib.sha1(data).hexdigest()
        if f != want:
            ctx.violation(f'C07/file-name-is-not-its-digest/{phase}', f'{f} hashes to {want}', rep)
    prime = dict(DBI().tables.prime)
    for k, v in prime.items():
        if v not in files:
            ctx.violation(f'C07/dangling-reference/{phase}', f'catalogue entry {k} -> {v}: no such file', rep)
    if not allow_leftovers and w.staged():
        ctx.violation(f'C07/staging-not-empty/{phase}', f'staging holds {w.staged()}', rep)
    # catalogue content: last write per key wins (crash-free histories only:
    # the statement does not promise that entries survive a crash)
    latest = {}
    for op in ops:
        for k, c in zip('xyz', contents(op)):
            latest[(op[0], op[1], op[2], k)] = expected_name(c)
    if not allow_leftovers and sorted(prime.values()) != sorted(latest.values()):
        ctx.violation(f'C07/catalogue/{phase}',
                      f'catalogue values {sorted(prime.values())}, expected {sorted(latest.values())}', rep)
    if flags is not None:
        seen = set()
        for op, fl in zip(ops, flags):
            want = []
            for c in contents(op):
                want.append(expected_name(c) not in seen)
                seen.add(expected_name(c))
            got = [new for _n, new in fl]
            if got != want:
                extra = [g and not w_ for g, w_ in zip(got, want)]
                ctx.violation(
                    f'C07/novelty-flag/{"reported-new-but-seen" if any(extra) else "reported-old-but-new"}/{phase}',
                    f'update {op} reported {fl}, store says new={want}', rep)


def alphabet(tier):
    if tier == 'quick':
        return [(r, t, a, c) for r in (1, 2) for t in ('A',) for a in ('a', 'b') for c in ('c0', 'c1')]
    return [(r, t, a, c) for r in (1, 2) for t in ('A', 'B') for a in ('a', 'b') for c in ('c0', 'c1')]


def multi_alphabet():
    '''state vectors with two values whose contents repeat across updates'''
    return [(r, 'A', a, (cx, cy)) for r in (1, 2) for a in ('a', 'b')
            for cx in ('c0', 'c1', 'c2') for cy in ('c0', 'c1', 'c2')]


def work_retry(args):
    '''an update that fails half-way (a later value cannot be pickled) and is
    retried by the same task object after the value was repaired: over both
    attempts every content that entered the store is reported new by at least
    one entry, and nothing that was already there is'''
    tier, seed = args
    import dawgie.db
    from dawgie.db.shelve.state import DBI
    from . import world, mini

    ctx = common.Ctx('C07', tier, seed, LEVEL)
    for pre in ((), ('c0',), ('c1',)):
        for cx in ('c0', 'c1'):
            for cy in ('c0', 'c1', 'c2'):
                w = world.StoreWorld()
                rep = {'tier': 'retry', 'already_stored': list(pre), 'x': cx, 'y': cy}
                try:
                    for i, c in enumerate(pre):
                        do_update((9, 'Z', 'z%d' % i, c))
                    vals = {'x': mini.Val(cx), 'y': mini.Val(lambda: None)}     # y cannot be pickled
                    a = mini.Alg('a', svs=[mini.SV('s', values=vals)])
                    b = mini.Bot('t', 1, 'A', [a])
                    DBI()._DBI__reopened = True
                    ctx.count('retried_updates')
                    try:
                        ds = dawgie.db.connect(a, b, 'A')
                        try:
                            ds.update()
                            first = 'returned'
                        except Exception as e:  # noqa
                            first = type(e).__name__
                        a.state_vectors()[0]['y'] = mini.Val(cy)
                        ds.update()
                    except Exception as e:  # noqa
                        ctx.violation(f'C07/retry/second-attempt-raises/{type(e).__name__}', f'{e!r}', rep)
                        continue
                    finally:
                        DBI()._DBI__reopened = False
                    seen = set(pre)
                    for k, c in (('x', cx), ('y', cy)):
                        flags = [new for n, new in b.new_values() if n.endswith('.s.' + k)]
                        want = c not in seen
                        seen.add(c)
                        if any(flags) != want:
                            ctx.violation('C07/retry/novelty-' + ('lost' if want else 'invented'),
                                          f'first attempt {first}; value {k}={c}: reports {flags}, '
                                          f'content was {"not " if want else ""}in the store before', rep)
                finally:
                    w.close()
    return ctx.export()


def work_names(args):
    '''an algorithm with several state vectors that share value names: every
    value written is reported exactly once, under its own full name, with the
    flag "content was not in the store before"'''
    tier, seed = args
    import itertools as it
    import dawgie.db
    from dawgie.db.shelve.state import DBI
    from . import world, mini

    ctx = common.Ctx('C07', tier, seed, LEVEL)
    slots = [('s', 'x'), ('s', 'y'), ('u', 'x'), ('w', 'x')]
    for pre in ((), ('c0',)):
        for cs in it.product(('c0', 'c1', 'c2'), repeat=len(slots)):
            if len(set(cs)) == 1 and cs[0] == 'c2':
                continue
            w = world.StoreWorld()
            rep = {'tier': 'names', 'already_stored': list(pre), 'contents': dict((f'{a}.{b}', c) for (a, b), c in zip(slots, cs))}
            try:
                for i, c in enumerate(pre):
                    do_update((9, 'Z', 'z%d' % i, c))
                svs = {}
                for (svn, vn), c in zip(slots, cs):
                    svs.setdefault(svn, {})[vn] = mini.Val(c)
                a = mini.Alg('a', svs=[mini.SV(n, values=v) for n, v in svs.items()])
                b = mini.Bot('t', 1, 'A', [a])
                DBI()._DBI__reopened = True
                ctx.count('updates')
                try:
                    dawgie.db.connect(a, b, 'A').update()
                finally:
                    DBI()._DBI__reopened = False
                seen = set(pre)
                want = []
                for (svn, vn), c in zip(slots, cs):
                    want.append((f'1.A.t.a.{svn}.{vn}', c not in seen))
                    seen.add(c)
                got = [(n, bool(f)) for n, f in b.new_values() if '__metric__' not in n]
                if sorted(got) != sorted(want):
                    names_ok = sorted(n for n, _f in got) == sorted(n for n, _f in want)
                    ctx.violation('C07/report/' + ('flag-differs' if names_ok else 'value-reported-under-another-name'),
                                  f'update reported {got}, written {want}', rep)
            finally:
                w.close()
    return ctx.export()


def work_free(args):
    tier, seed, shard, nshards, depth = args
    from . import world

    ctx = common.Ctx('C07', tier, seed, LEVEL)
    alpha = alphabet(tier)
    if depth < 0:
        alpha, depth = multi_alphabet(), -depth
    n = -1
    shapes = set()
    for size in range(1, depth + 1):
        for ops in itertools.product(alpha, repeat=size):
            n += 1
            if n % nshards != shard:
                continue
            w = world.StoreWorld()
            try:
                flags = []
                rep = {'ops': [list(o) for o in ops]}
                for i, op in enumerate(ops):
                    flags.append(do_update(op))
                    ctx.count('updates')
                    oracle(ctx, w, ops[:i + 1], flags, rep, 'crash-free')
                ctx.count('histories')
                shapes.add(tuple(op[3] for op in ops))
            finally:
                w.close()
            if n % 211 == 0:
                ctx.sample(rep)
    out = ctx.export()
    out['shapes'] = len(shapes)
    return out


# ------------------------------------------------------------------ crashes

FS_MODULES = ('posix', '_io', 'io', 'nt')
# calls that cannot change what is on disk; a crash immediately before one of
# them leaves exactly the state of a crash before the next mutating call, so
# they are not separate crash points
READ_ONLY = frozenset((
    'getpid', 'fspath', 'getcwd', 'urandom', 'get_terminal_size', 'read', 'readline', 'readlines',
    'readinto', 'read1', 'readall', 'seek', 'tell', 'getvalue', 'stat', 'lstat', 'fstat', 'listdir',
    'scandir', 'access', 'isatty', 'fileno', 'seekable', 'readable', 'writable', 'getuid', 'geteuid',
    'getgid', 'umask', 'times', 'cpu_count', 'get_inheritable', 'get_blocking', 'strerror', 'getppid',
    'peek', 'detach', 'register_at_fork', 'sysconf', 'uname', 'getlogin', 'WIFEXITED', 'waitstatus_to_exitcode'))


class Bomb:
    '''count calls into posix/_io; exit the process before call number k'''

    def __init__(self, k=None):
        self.k = k
        self.n = 0
        self.log = []

    def __call__(self, frame, event, arg):
        if event != 'c_call':
            return
        mod = getattr(arg, '__module__', None)
        if mod is None:
            slf = getattr(arg, '__self__', None)
            mod = type(slf).__module__ if slf is not None else None
        if mod not in FS_MODULES:
            return
        name = getattr(arg, '__name__', '?')
        if name in READ_ONLY:
            return  # the on-disk state cannot change: same crash point as the next call
        slf = getattr(arg, '__self__', None)
        if type(slf).__name__ in ('BytesIO', 'StringIO'):
            return  # in-memory buffer, not a file
        if self.k is not None and self.n == self.k:
            os._exit(0)
        self.n += 1
        if self.k is None:
            self.log.append(name)


def in_child(fn):
    '''run fn() in a forked child, return its pickled result (or None if the
    child exited without one, e.g. the bomb went off)'''
    r, wfd = os.pipe()
    pid = os.fork()
    if pid == 0:
        try:
            os.close(r)
            out = fn()
            os.write(wfd, pickle.dumps(out))
        except BaseException as e:  # noqa
            try:
                os.write(wfd, pickle.dumps(('EXC', repr(e))))
            except Exception:  # noqa
                pass
        finally:
            os._exit(0)
    os.close(wfd)
    chunks = []
    while True:
        b = os.read(r, 65536)
        if not b:
            break
        chunks.append(b)
    os.close(r)
    os.waitpid(pid, 0)
    return pickle.loads(b''.join(chunks)) if chunks else None


def open_at(root):
    '''point dawgie at an existing store directory and open it'''
    import dawgie.context
    import dawgie.db
    from dawgie.db.shelve.state import DBI
    from . import world

    world.install_store_seams()
    c = dawgie.context
    c.db_impl, c.db_name = 'shelve', 'verif'
    c.db_path = c.db_rotate_path = os.path.join(root, 'db')
    c.data_dbs, c.data_stg = os.path.join(root, 'dbs'), os.path.join(root, 'stg')
    c.data_log = os.path.join(root, 'logs')
    c.db_lock = False
    DBI()._DBI__reopened = False
    if DBI().is_open:
        DBI().close()
    world.FakeSock.live.clear()
    world.reset_reactor()
    dawgie.db.open()


class Probe:
    def __init__(self, root):
        self.root = root

    def staged(self):
        return sorted(os.listdir(os.path.join(self.root, 'stg')))


def work_crash(args):
    tier, seed, ops = args
    import dawgie.db
    from dawgie.db.shelve.state import DBI
    from . import world

    ctx = common.Ctx('C07', tier, seed, LEVEL)
    base = os.path.join(common.scratch_root(), 'crash')
    shutil.rmtree(base, ignore_errors=True)
    rep = {'ops': [list(o) for o in ops]}
    # 1. store holding the prefix, flushed to disk
    w = world.StoreWorld('crash/prefix')
    for op in ops[:-1]:
        do_update(op)
    w.as_foreman()
    dawgie.db.close()
    prefix = w.root

    def copy(name):
        dst = os.path.join(base, name)
        shutil.rmtree(dst, ignore_errors=True)
        shutil.copytree(prefix, dst)
        return dst

    # 2. count the file-system steps of the last update
    def count():
        d = copy('count')
        open_at(d)
        bomb = Bomb(None)
        sys.setprofile(bomb)
        do_update(ops[-1])
        dawgie.db.close()
        sys.setprofile(None)
        return bomb.n, bomb.log

    res = in_child(count)
    if not res or res[0] == 'EXC':
        raise common.HarnessBroken(f'count pass failed: {res}')
    total, calls = res
    ctx.count('crash_histories')
    outcomes = set()
    for k in range(total):
        d = copy(f'k{k}')

        def crash():
            open_at(d)
            sys.setprofile(Bomb(k))
            do_update(ops[-1])
            dawgie.db.close()
            sys.setprofile(None)
            return 'survived'

        r = in_child(crash)
        if r is not None:
            raise common.HarnessBroken(f'bomb {k}/{total} did not go off: {r}')
        ctx.count('crash_points')

        def recover():
            c2 = common.Ctx('C07', tier, seed, LEVEL)
            rp = dict(rep, crash_before_call=k, call=calls[k])
            try:
                open_at(d)
            except Exception as e:  # noqa
                c2.violation(f'C07/crash/catalogue-does-not-open/{type(e).__name__}',
                             f'after a crash before fs call {k} ({calls[k]}): open raised {e!r}', rp)
                return c2.export(), 'noopen'
            dbs = os.path.join(d, 'dbs')
            files = set(os.listdir(dbs))
            try:
                prime = dict(DBI().tables.prime)
            except Exception as e:  # noqa
                c2.violation(f'C07/crash/catalogue-unreadable/{type(e).__name__}',
                             f'after a crash before fs call {k} ({calls[k]}): {e!r}', rp)
                return c2.export(), 'unreadable'
            for key, v in prime.items():
                if v not in files:
                    c2.violation('C07/crash/dangling-reference',
                                 f'crash before fs call {k} ({calls[k]}): catalogue entry {key} -> {v} '
                                 'but no such file', rp)
            recorded = len(prime)
            # continue: the interrupted update is submitted again
            try:
                do_update(ops[-1])
                oracle(c2, Probe(d), ops, None, rp, 'after-crash-and-redo', allow_leftovers=True)
            except Exception as e:  # noqa
                c2.violation(f'C07/crash/redo-raises/{type(e).__name__}',
                             f'crash before fs call {k} ({calls[k]}): redo raised {e!r}', rp)
            dawgie.db.close()
            return c2.export(), f'{len(files)}f{recorded}p'

        r = in_child(recover)
        if not r or r[0] == 'EXC':
            raise common.HarnessBroken(f'recovery child failed at k={k}: {r}')
        ctx.merge(r[0])
        outcomes.add(r[1])
        shutil.rmtree(d, ignore_errors=True)
    shutil.rmtree(base, ignore_errors=True)
    out = ctx.export()
    out['outcomes'] = sorted(outcomes)
    out['sample'] = dict(rep, fs_calls=total, calls=calls[:60], post_crash_states=sorted(outcomes))
    return out


def crash_histories(tier):
    a = [(1, 'A', 'a', 'c0'), (1, 'A', 'a', 'c1'), (1, 'A', 'b', 'c0'), (2, 'A', 'a', 'c0'),
         (1, 'B', 'a', 'c1')]
    hs = [(x,) for x in a[:2]]
    if tier == 'quick':
        # second update: same content (dedupe path), new content, overwrite of
        # the same key, other run / algorithm
        hs += [(a[0], a[0]), (a[0], a[1]), (a[0], a[2]), (a[2], a[1])]
    else:
        hs += [(x, y) for x in a for y in a]
        hs += [(x, y, z) for x in a[:3] for y in a[:3] for z in a[:4]]
    return hs


# ------------------------------------------------------------------ purge tool

def purge_histories():
    """(history of the purged store X, history of the bystander store Y).
    ('rm', run, tgt, alg) removes the catalogue entries of that update."""
    u = lambda r, a, c: (r, 'A', a, c)
    xs = [
        [u(1, 'a', 'c0')],
        [u(1, 'a', 'c0'), u(1, 'a', 'c1')],                      # overwritten key: c0 orphaned
        [u(1, 'a', 'c0'), u(2, 'a', 'c0'), u(1, 'a', 'c1')],      # shared content, one owner moved on
        [u(1, 'a', 'c0'), u(1, 'b', 'c1'), ('rm', 1, 'A', 'b')],  # removed entry: c1 orphaned
        [u(1, 'a', ('c0', 'c1')), u(1, 'a', ('c1', 'c2'))],
    ]
    ys = [
        [u(1, 'a', 'c3')],
        [u(1, 'a', 'c0'), u(1, 'b', 'c3')],                      # shares content c0 with X
        [u(1, 'a', 'c3'), u(1, 'a', 'c4')],                      # has an orphan of its own
    ]
    return [(x, y) for x in xs for y in ys]


def do_op(op):
    import dawgie.db
    if op[0] == 'rm':
        _rm, run, tgt, alg = op
        dawgie.db.remove(run, tgt, 't', alg, 's', 'x')
        return None
    return do_update(op)


def store_view(root):
    """(catalogue prime table, files) of the store at root, read from disk"""
    from dawgie.db.shelve.state import DBI
    import dawgie.db
    open_at(root)
    prime = dict(DBI().tables.prime)
    dawgie.db.close()
    files = sorted(os.listdir(os.path.join(root, 'dbs')))
    return prime, files


def work_purge(args):
    tier, seed, hx, hy = args
    import dawgie.db
    from . import world

    ctx = common.Ctx('C07', tier, seed, LEVEL)
    rep = {'purged_store_ops': [list(o) for o in hx], 'other_store_ops': [list(o) for o in hy],
           'op': 'python -m dawgie.db.tools.purge --context-db-path X/db --context-data-dbs X/dbs ...'}
    roots = {}
    for name, hist in (('X', hx), ('Y', hy)):
        w = world.StoreWorld('purge/' + name)
        for op in hist:
            do_op(op)
        w.as_foreman()
        dawgie.db.close()
        roots[name] = w.root
    before = {n: in_child(lambda n=n: store_view(roots[n])) for n in roots}

    def tool(dbname='verif', target='X'):
        import runpy
        import logging
        # the process environment (dawgie.context defaults) names store Y; the
        # command line names store X
        import dawgie.context as c
        y, x = roots['Y'], roots[target]
        world.install_store_seams()
        c.db_impl, c.db_name = 'shelve', 'verif'
        c.db_path = c.db_rotate_path = os.path.join(y, 'db')
        c.data_dbs, c.data_stg, c.data_log = (os.path.join(y, d) for d in ('dbs', 'stg', 'logs'))
        os.environ['DAWGIE_DOCKERIZED_AE_GIT_REVISION'] = 'verif'
        sys.argv = ['purge.py', '--context-db-impl', 'shelve', '--context-db-name', dbname,
                    '--context-db-path', os.path.join(x, 'db'),
                    '--context-data-dbs', os.path.join(x, 'dbs'),
                    '--context-data-stg', os.path.join(x, 'stg'),
                    '--context-data-log', os.path.join(x, 'logs')]
        try:
            runpy.run_module('dawgie.db.tools.purge', run_name='__main__')
        except SystemExit as e:
            return ('exit', e.code)
        finally:
            try:
                dawgie.db.close()
            except Exception:  # noqa
                pass
            logging.shutdown()
        return ('exit', 0)

    res = in_child(tool)
    ctx.count('purges')
    if not res or res[0] == 'EXC':
        ctx.violation('C07/purge-tool-raises', f'purge tool failed: {res}', rep)
        return ctx.export()
    after = {n: in_child(lambda n=n: store_view(roots[n])) for n in roots}
    for n in ('X', 'Y'):
        if not after[n] or after[n][0] == 'EXC':
            ctx.violation(f'C07/purge/store-{n}-does-not-open', f'{after[n]}', rep)
            continue
        prime, files = after[n]
        for k, v in sorted(prime.items()):
            if v not in files:
                ctx.violation(f'C07/dangling-reference/after-purge/{"purged" if n == "X" else "other"}-store',
                              f'store {n}: catalogue entry {k} -> {v}: no such file '
                              f'(files before {before[n][1]}, after {files})', rep)
                break
        if prime != before[n][0]:
            ctx.violation(f'C07/purge-changed-catalogue/{n}', f'{before[n][0]} -> {prime}', rep)
    # the tool's own contract on the store it was pointed at: unreferenced
    # files go (identical content kept once and only while referenced)
    if after['X'] and after['X'][0] != 'EXC':
        prime, files = after['X']
        if prime and sorted(set(prime.values())) != files:
            ctx.violation('C07/purge/unreferenced-file-left-in-purged-store',
                          f'files {files}, referenced {sorted(set(prime.values()))}', rep)
    # the tool pointed at Y's store with a mistyped data-base name: shelve creates
    # a fresh, empty catalogue; nothing of the store may go
    res = in_child(lambda: tool('verjf', 'Y'))
    ctx.count('purges')
    view = in_child(lambda: store_view(roots['Y']))
    rep2 = dict(rep, op='purge --context-db-name <mistyped> on the other store')
    if not view or view[0] == 'EXC':
        ctx.violation('C07/purge/store-Y-does-not-open', f'{view}', rep2)
    else:
        prime, files = view
        for k, v in sorted(prime.items()):
            if v not in files:
                ctx.violation('C07/dangling-reference/after-purge/empty-catalogue',
                              f'purge run with an empty (mistyped) catalogue (tool result {res}): entry {k} -> {v}: '
                              f'no such file (files before {after["Y"][1] if after["Y"] else None}, after {files})', rep2)
                break
    for r in roots.values():
        shutil.rmtree(r, ignore_errors=True)
    return ctx.export()


def run(ctx):
    from . import world
    world.validate_digest_seam(common.scratch_root())
    depth = 3 if ctx.quick() else 4
    nsh = 32
    shapes = 0
    for r in common.pmap(work_free, [(ctx.tier, ctx.seed, s, nsh, depth) for s in range(nsh)]
                         + [(ctx.tier, ctx.seed, s, nsh, -2) for s in range(nsh)]):
        ctx.merge(r)
        shapes += r['shapes']
    states = set()
    for r in common.pmap(work_crash, [(ctx.tier, ctx.seed, h) for h in crash_histories(ctx.tier)]):
        ctx.merge(r)
        states.update(r['outcomes'])
        ctx.sample(r['sample'])
    for r in common.pmap(work_retry, [(ctx.tier, ctx.seed)]):
        ctx.merge(r)
    for r in common.pmap(work_names, [(ctx.tier, ctx.seed)]):
        ctx.merge(r)
    for r in common.pmap(work_purge, [(ctx.tier, ctx.seed, hx, hy) for hx, hy in purge_histories()]):
        ctx.merge(r)
    c = ctx.counters
    ctx.assumptions += [
        'process-crash model: system calls completed before the crash persist, user-space buffers are lost (os._exit)',
        'staging area and store on one file system (default configuration) so that shutil.move is a rename',
        'pipeline and worker side run in one process here, so the crash points are a superset of either side alone',
        'md5sum/sha1sum replaced by hashlib with identical output, validated against the real tools each run']
    cov = {
        'evaluations': c.get('updates', 0) + c.get('crash_points', 0),
        'distinct_nontrivial': c.get('crash_points', 0),
        'rule': f'crash-free: every sequence of <= {depth} updates over the alphabet (8 quick / 16 thorough ops); '
                'plus every pair of updates of two-value state vectors over 3 contents; crash: every file-system call index of the last update of each selected history '
                f'({len(crash_histories(ctx.tier))} histories); purge tool: every pair of {len(purge_histories())} (purged store history, bystander store history) with the real __main__ block; distinct_nontrivial = crash points injected',
        'purge_runs': c.get('purges', 0),
        'crash_histories': c.get('crash_histories', 0),
        'crash_points': c.get('crash_points', 0),
        'crash_free_histories': c.get('histories', 0),
        'distinct_post_crash_states': sorted(states),
    }
    return common.finish(ctx, cov, exhaustive=True)


def replay(data):
    r = data['replay']
    print('history', r['ops'], 'crash before fs call', r.get('crash_before_call'), r.get('call'))
    print('re-run `bin/check C07`; the crash point is identified by the history and the call index')
    return 0
