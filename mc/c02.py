'''C02 - reprocessing after a change is complete and minimal.

Abstract tier (model checking of the real scheduler + farm): success replies
report EVERY subset of the algorithm's values as new.  A monitor keeps
obligations: when (X,T) reports the set S new at step t, every algorithm Y whose
declared inputs (value level, from the engine description, incl. feedback
consumers) meet S owes a release of (Y,T') strictly after t (T' = T; '__all__'
when Y is an analyzer; every known target when X is an analyzer and Y is not).
A release discharges the obligations and the explicit justifications (run
request) of that unit.  Violations: a release without justification
(minimality), a quiescent state with an undischarged obligation (completeness).
The obligation set is part of the canonical state.

Store tier: the same loop with REAL execution - farm task message ->
pl.worker.Context.run -> Task.do -> Dataset.load/update -> shelve over the
loopback wire, generated algorithms whose value content is a pure function of
the loaded inputs and of harness-controlled root epochs - explored over every
completion order and every choice of which root values change; at every
quiescent state a fresh Dataset.load() of every (target, algorithm, value) must
equal the reference evaluation of the engine in dependency order.
'''

import itertools

from . import common, aegen, schedcheck, explore

LEVEL = 'model_checking'
PID = 'C02'
A = aegen.alg


def sv2():
    return [aegen.sv('s', ('x', 'y'))]


def engines():
    E = {}
    E['value-fanout'] = [A('ta', 'a', svs=sv2()),
                         A('tb', 'b', inputs=[('ta', 'a', 's', 'x')], svs=sv2()),
                         A('tc', 'c', inputs=[('ta', 'a', 's', 'y')], svs=sv2()),
                         A('td', 'd', inputs=[('ta', 'a', None, None)], svs=sv2())]
    E['value-chain'] = [A('ta', 'a', svs=sv2()),
                        A('tb', 'b', inputs=[('ta', 'a', 's', 'x')], svs=sv2()),
                        A('tc', 'c', inputs=[('tb', 'b', 's', 'y')], svs=sv2())]
    E['chain-analysis'] = [A('ta', 'a', svs=sv2()),
                           A('tz', 'z', 'analysis', inputs=[('ta', 'a', 's', 'x')], svs=sv2()),
                           A('tc', 'c', inputs=[('tz', 'z', 's', 'y')], svs=sv2())]
    E['feedback'] = [A('ta', 'a', svs=sv2(), fb=[('tb', 'b', 's', 'x')]),
                     A('tb', 'b', inputs=[('ta', 'a', 's', 'x')], svs=sv2())]
    E['feedback-mid'] = [A('ta', 'a', svs=sv2(), fb=[('tb', 'b', 's', 'x')]),
                         A('tb', 'b', inputs=[('ta', 'a', 's', 'x')], svs=sv2()),
                         A('tc', 'c', inputs=[('tb', 'b', 's', 'y')], svs=sv2())]
    # the fed-back value is also an ordinary input of a downstream consumer
    E['feedback-shared'] = [A('ta', 'a', svs=sv2(), fb=[('tb', 'b', 's', 'x')]),
                            A('tb', 'b', inputs=[('ta', 'a', 's', 'x')], svs=sv2()),
                            A('tc', 'c', inputs=[('tb', 'b', 's', 'x')], svs=sv2())]
    # one value read by an analyzer AND by a task (the analyzer's name sorts first)
    E['mixed-dependents'] = [A('ta', 'a', svs=sv2()),
                             A('tn', 'n', 'analysis', inputs=[('ta', 'a', 's', 'x')], svs=sv2()),
                             A('tq', 'q', inputs=[('ta', 'a', 's', 'x')], svs=sv2())]
    E['join'] = [A('ta', 'a', svs=sv2()), A('tb', 'b', svs=sv2()),
                 A('tc', 'c', inputs=[('ta', 'a', 's', 'x'), ('tb', 'b', 's', 'y')], svs=sv2())]
    E['regress-leaf'] = [A('ta', 'a', svs=sv2()),
                         A('tr', 'r', 'regress', inputs=[('ta', 'a', 's', 'y')], svs=sv2())]
    return {k: {'style': 'legacy', 'algs': v} for k, v in E.items()}


def subsets(names):
    out = []
    for r in range(len(names) + 1):
        out.extend(itertools.combinations(names, r))
    return out


def make_adapter(desc, targets, reqs):
    from .sched import SchedAdapter

    class C02Adapter(SchedAdapter):
        def __init__(self):
            SchedAdapter.__init__(self, desc, targets, {'C02'}, reqs=reqs, outcomes=())
            roots = [t for t in self.eng.tags() if not self.eng.alg_of(t)['in']]
            # run requests name a root (a root re-run) or any algorithm
            self.req_menu = [(t, (targets[0],)) for t in self.eng.tags()]
            if len(targets) > 1:
                self.req_menu += [(t, tuple(targets)) for t in roots]

        def mon_initial(self):
            return {'removed': (), 'owed': (), 'just': ()}

        def enabled(self, s):
            evs = []
            if s['reqs'] < self.reqs:
                for tag, tg in self.req_menu:
                    evs.append(('req', tag, tg))
            evs.append(('tick',))
            seen = set()
            for j, t, r, _u in s['inflight']:
                if (j, t, r) in seen:
                    continue
                seen.add((j, t, r))
                a = self.eng.alg_of(j)
                names = [f"{sv_['n']}.{v['n']}" for sv_ in a['svs'] for v in sv_['vals']]
                for sub in subsets(names):
                    evs.append(('reply', j, t, r, 'success', sub))
            return evs

        def monitors(self, s, ev, before, ns, report):
            mon = SchedAdapter.monitors(self, s, ev, before, ns, report)
            owed = set(mon.get('owed', ()))
            just = set(mon.get('just', ()))
            eng = self.eng
            if ev[0] == 'req':
                for t in ev[2]:
                    kind = eng.kind(ev[1])
                    just.add((ev[1], '__all__' if kind == 'analysis' else t))
            # releases of this step
            released = [(e[1], e[2]) for e in self.log if e[0] == 'put']
            for tag, t in released:
                if (tag, t) not in owed and (tag, t) not in just:
                    report('C02/release-without-cause/' + eng.kind(tag),
                           f'{tag}[{t}] released although none of its inputs was reported new and nobody asked for it')
                owed.discard((tag, t))
                just.discard((tag, t))
            if ev[0] == 'reply':
                _k, j, t, r, _o, sub = ev
                newvals = {f'{j}.{nm}' for nm in sub}
                xkind = eng.kind(j)
                for y in eng.algs:
                    ytag = eng.tag(y)
                    if ytag == j:
                        continue
                    needs = set(eng.input_values(y)) | set(eng.feedback_values(y))
                    if not (needs & newvals):
                        continue
                    ykind = y['k']
                    if ykind == 'analysis':
                        tg = ['__all__']
                    elif xkind == 'analysis' or t == '__all__':
                        tg = list(self.w.targets)
                    else:
                        tg = [t]
                    for t2 in tg:
                        owed.add((ytag, t2))
            mon['owed'] = tuple(sorted(owed))
            mon['just'] = tuple(sorted(just))
            if self.quiescent_truth() and owed:
                report('C02/new-value-not-propagated/' + '+'.join(sorted({eng.kind(y) for y, _t in owed})),
                       f'pipeline is quiescent but {sorted(owed)} never ran after the report that concerns them')
            return mon

    return C02Adapter()


def abstract_job(args):
    tier, seed, name, desc, targets, reqs = args
    import random
    try:
        ad = make_adapter(desc, targets, reqs)
    except common.GraphMismatch as e:
        return {'name': name, 'targets': targets, 'states': 0, 'transitions': 0, 'selfchecked': 0, 'capped': False,
                'violations': {'C02/task-graph-lacks-a-declared-algorithm': {
                    'what': f'[{name}] {e}', 'count': 1,
                    'replay': {'tier': 'abstract', 'engine': name, 'desc': desc, 'targets': targets, 'reqs': reqs,
                               'history': []}}}}
    ex = explore.Explorer(ad, max_states=300000)
    res = ex.run()
    bad = ex.selfcheck(res, random.Random(seed), 30 if tier == 'quick' else 200)
    if bad:
        raise common.HarnessBroken(f'{name}: snapshot/restore diverges from full replay on {bad[0]}')
    viol = {}
    for sig, what, hist in res.violations:
        v = viol.setdefault(sig, {'what': None, 'replay': None, 'count': 0})
        v['count'] += 1
        if what is not None and v['what'] is None:
            found = []
            ad.replay(hist, lambda a, b: found.append(a))
            if sig not in found:
                raise common.HarnessBroken(f'{name}: {sig} does not reproduce on replay {hist}')
            v['what'] = f'[{name} targets={targets}] {what}'
            v['replay'] = {'tier': 'abstract', 'engine': name, 'desc': desc, 'targets': targets, 'reqs': reqs,
                           'history': [list(e) for e in hist]}
    return {'name': name, 'targets': targets, 'states': res.states, 'transitions': res.transitions,
            'selfchecked': res.selfchecked, 'capped': res.capped,
            'violations': {k: v for k, v in viol.items() if v['what']}}


def run(ctx):
    from . import c02store
    jobs = []
    for name, desc in engines().items():
        for targets in (['A'], ['A', 'B']):
            reqs = 2
            if ctx.quick() and len(targets) == 2:
                reqs = 1
            jobs.append((ctx.tier, ctx.seed, name, desc, targets, reqs))
    states = transitions = selfchecked = 0
    per = []
    results = [('a', r) for r in common.pmap(abstract_job, jobs)]
    # the store tier re-executes histories through the real worker + shelve code:
    # each job shards its breadth-first levels over the worker pool itself
    for j in c02store.jobs(ctx):
        results.append(('s', c02store.job(j)))
    for kind, r in results:
        states += r['states']
        transitions += r['transitions']
        selfchecked += r.get('selfchecked', r['transitions'] if kind == 's' else 0)
        for sig, v in r['violations'].items():
            mine = ctx.violations.get(sig)
            if mine is None:
                ctx.violations[sig] = v
            else:
                mine['count'] += v['count']
        if r.get('capped'):
            ctx.cap(f'state cap reached for {r["name"]}')
        per.append({k: r[k] for k in ('name', 'targets', 'states', 'transitions') if k in r} | {'tier': kind})
    for p in per[:8]:
        ctx.sample(p)
    ctx.assumptions += [
        'abstract tier: success replies only (failures are C05), <= 2 run requests per history, the environment of the '
        'other scheduler checks',
        'store tier: a unit executes atomically at the moment its reply is delivered (C01 excludes concurrent upstream '
        'runs, the store lock serialises load/update); root contents carry (algorithm, value, target, epoch) so that '
        'changed content was never stored before']
    cov = {'states': states, 'transitions': transitions, 'traces_validated_against_impl': selfchecked,
           'explanation': 'abstract tier explores snapshots of the real scheduler/farm (validated by full replays); the '
                          'store tier re-executes every history through the real worker and shelve code',
           'per_engine': sorted(per, key=lambda d: (d['tier'], d['name'], str(d.get('targets'))))}
    return common.finish(ctx, cov, exhaustive=True)


def replay(data):
    r = data['replay']
    if r.get('tier') == 'store':
        from . import c02store
        return c02store.replay(data)
    ad = make_adapter(r['desc'], r['targets'], r['reqs'])
    s = ad.initial()
    hits = []
    for ev in [tuple(tuple(x) if isinstance(x, list) else x for x in e) for e in r['history']]:
        found = []
        s = ad.fresh_step(s, ev, lambda a, b: found.append((a, b)))
        print('event', ev)
        for e in ad.log:
            print('    ', e)
        print('     owed', s['mon']['owed'], 'just', s['mon']['just'])
        for a, b in found:
            print('  !!', a, '::', b)
            hits.append(a)
    bad = data['signature'] in hits
    print('VIOLATES' if bad else 'ok')
    return 1 if bad else 0
