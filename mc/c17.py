'''C17 - search returns exactly the matching entries, in order, page by page.

Exhaustive enumeration (no sampling):
  * every database content = every subset of an 8-key universe (256 stores,
    each written through the real worker path Interface.update over the
    loopback wire protocol),
  * x every combination of constraints from small menus (run-id expression x
    targets x tasks x algs x svs x vals),
  * x every (index, limit) page for a sub-menu, plus page concatenation,
  * every facet request,
  * every run-id expression of <= 3 comma separated terms over ints 0..4 and
    ranges a:b / a: / :b (65 640 strings) + the list/Range form: the set of
    run ids in 0..6 denoted before _scrub equals the set denoted after, and
    (for selected stores) find() returns exactly the denoted runs.
Oracle: brute-force filter over the keys the harness itself inserted.
'''

import itertools

from . import common

LEVEL = 'exploration'

UNIVERSE = [
    (1, 'A', 't', 'a', 's', 'v'),
    (1, 'A', 't', 'a', 's', 'w'),
    (2, 'A', 't', 'ab', 's', 'v'),
    (2, 'B', 't', 'a', 's', 'v'),
    (3, 'B', 't', 'ab', 's', 'w'),
    (5, 'A', 't', 'a', 's', 'v'),
    (3, 'A', 't', 'a', 'sx', 'v'),
    (1, 'B', 'tt', 'a', 's', 'v'),
]
RUNS = range(0, 7)


# ----------------------------------------------------------------- reference


def ref_terms(expr):
    '''independent parse of a run-id expression -> predicate on ints'''
    from dawgie.db.basis import Range

    singles, ranges = set(), []
    if expr is None:
        return None
    if isinstance(expr, str):
        for term in expr.split(','):
            term = term.strip()
            if not term:
                continue
            if ':' in term:
                lo, hi = term.split(':')
                ranges.append((int(lo) if lo else 0, int(hi) if hi else None))
            else:
                singles.add(int(term))
    else:
        items = expr if isinstance(expr, (list, tuple, set)) else [expr]
        for it in items:
            if isinstance(it, Range):
                ranges.append((it.start, it.stop))
            else:
                singles.add(it)
    return singles, ranges


def ref_denote(expr, universe=RUNS):
    sr = ref_terms(expr)
    if sr is None:
        return set(universe)
    singles, ranges = sr
    out = set()
    for r in universe:
        if r in singles or any(
            lo <= r and (hi is None or r < hi) for lo, hi in ranges
        ):
            out.add(r)
    return out


def impl_denote(runidset, universe=RUNS):
    '''what a scrubbed list (ints and Range objects) denotes, using the
    Range class's own membership'''
    from dawgie.db.basis import Range

    out = set()
    for r in universe:
        for it in runidset:
            if isinstance(it, Range):
                if r in it:
                    out.add(r)
            elif it == r:
                out.add(r)
    return out


def ref_find(content, q):
    '''brute force: keys of content matching q, collapsed to sv granularity'''
    runs = ref_denote(q['runids'], range(0, 10))
    out = set()
    for k in content:
        if q['runids'] is not None and k[0] not in runs:
            continue
        ok = True
        for pos, name in ((1, 'targets'), (2, 'tasks'), (3, 'algs'),
                          (4, 'svs'), (5, 'vals')):
            if q[name] and k[pos] not in q[name]:
                ok = False
        if ok:
            out.add(k[:5])
    return out


def as_item(k5):
    return '.'.join(str(e) for e in k5)


# ----------------------------------------------------------------- menus

def menus(tier):
    from dawgie.db.basis import Range

    runids = [None, '1', '1,3', '1:3', '2:', ':3', '5', '4',
              '3:1', '1,2:4', [1, Range(2, 4)], Range(1, 4)]
    targets = [None, ['A'], ['A', 'B'], ['Z']]
    tasks = [None, ['t'], ['tt']]
    algs = [None, ['a'], ['ab'], ['a', 'ab']]
    svs = [None, ['s'], ['sx'], ['q']]
    vals = [None, ['w']]
    if tier != 'quick':
        runids += ['0:9', '1:2,2:4', [Range(0, 2), 5], 2]
        targets += [['B']]
        vals += [['v']]
    return runids, targets, tasks, algs, svs, vals


def all_expressions(maxterms):
    ints = [str(i) for i in range(5)]
    terms = list(ints)
    terms += [f'{a}:{b}' for a in range(5) for b in range(5)]
    terms += [f'{a}:' for a in range(5)]
    terms += [f':{b}' for b in range(5)]
    for n in range(1, maxterms + 1):
        for combo in itertools.product(terms, repeat=n):
            yield ','.join(combo)


# ----------------------------------------------------------------- work


def build_store(content):
    from . import world, mini
    import dawgie.db

    w = world.StoreWorld()
    w.as_worker()
    for run, tgt, task, alg, sv, vn in content:
        a = mini.Alg(alg, svs=[mini.SV(sv, values={vn: mini.Val((run, tgt, vn))})])
        b = mini.Bot(task, run, tgt, [a])
        dawgie.db.connect(a, b, tgt).update()
    w.as_foreman()
    return w


def qdict(r, tg, tk, al, sv, va):
    return {'runids': r, 'targets': tg, 'tasks': tk, 'algs': al, 'svs': sv,
            'vals': va}


def qrepr(q):
    return {k: (repr(v) if k == 'runids' else v) for k, v in q.items()}


def features(q, index, limit):
    f = []
    r = q['runids']
    if r is not None:
        from dawgie.db.basis import Range
        s = repr(r)
        f.append('runids:range' if (':' in s or 'Range' in s) else 'runids:ints')
    for k in ('targets', 'tasks', 'algs', 'svs', 'vals'):
        if q[k]:
            f.append(k)
    if index:
        f.append('index>0')
    if limit is not None:
        f.append('limit')
    return '{' + ','.join(f) + '}'


def check_find(ctx, search, content, q, index=0, limit=None, full=None):
    '''returns the item list; records a violation when it differs'''
    from dawgie.db.basis import Params

    ctx.count('find_calls')
    try:
        res = search.find(Params(**q), index, limit)
    except Exception as e:  # noqa
        ctx.violation(
            f'C17/find-raises/{type(e).__name__}/{features(q, index, limit)}',
            f'find raised {e!r}',
            {'content': content, 'query': qrepr(q), 'index': index, 'limit': limit},
        )
        return None
    want = ref_find(content, q)
    want_items = sorted(as_item(k) for k in want)
    if full is None:
        # unpaged: exact set, no repeats, ascending run id, total
        bad = None
        if sorted(res.items) != want_items:
            bad = 'items'
        elif [int(i.split('.')[0]) for i in res.items] != sorted(
            int(i.split('.')[0]) for i in res.items
        ):
            bad = 'order'
        elif res.total != len(want_items):
            bad = 'total'
        if bad:
            ctx.violation(
                f'C17/find-{bad}/{features(q, index, limit)}',
                f'find returned {list(res.items)} total={res.total}; '
                f'reference {want_items}',
                {'content': content, 'query': qrepr(q), 'index': index,
                 'limit': limit},
            )
    else:
        exp = full[index: (index + limit) if limit is not None else None]
        if list(res.items) != exp or res.total != len(full):
            ctx.violation(
                f'C17/page/{features(q, index, limit)}',
                f'page index={index} limit={limit} returned {list(res.items)} '
                f'total={res.total}; expected slice {exp} of {len(full)}',
                {'content': content, 'query': qrepr(q), 'index': index,
                 'limit': limit},
            )
    return list(res.items)


FLOOD = 300


def work_store(args):
    '''everything for one database content'''
    tier, seed, mask, do_expr = args
    import dawgie.db
    from dawgie.db.basis import Params

    ctx = common.Ctx('C17', tier, seed, LEVEL)
    content = [k for i, k in enumerate(UNIVERSE) if mask >> i & 1]
    w = build_store(content)
    try:
        # sanity of the harness: what we inserted is what the store lists
        listed = sorted(dawgie.db._prime_keys())
        if listed != sorted('.'.join(map(str, k)) for k in content):
            raise common.HarnessBroken(f'store content differs: {listed}')
        search = dawgie.db.search()
        runids, targets, tasks, algs, svs, vals = menus(tier)
        nontrivial = set()
        for combo in itertools.product(runids, targets, tasks, algs, svs, vals):
            if ctx.flooded(FLOOD):
                break
            q = qdict(*combo)
            items = check_find(ctx, search, content, q)
            if items:
                nontrivial.add(tuple(items))
        # pages
        for r, tg, al in itertools.product(
            [None, '1:4', '1,2,3'], [None, ['A']], [None, ['a']]
        ):
            if ctx.flooded(FLOOD):
                break
            q = qdict(r, tg, None, al, None, None)
            full = check_find(ctx, search, content, q)
            if full is None:
                continue
            full = list(search.find(Params(**q)).items)
            for limit in (None, 0, 1, 2, 3):
                for index in range(0, len(full) + 2):
                    check_find(ctx, search, content, q, index, limit, full)
                    ctx.count('pages')
                if limit:
                    cat, i = [], 0
                    while True:
                        page = search.find(Params(**q), i, limit).items
                        if not page:
                            break
                        cat.extend(page)
                        i += limit
                        if i > len(full) + 4:
                            break
                    if cat != full:
                        ctx.violation(
                            f'C17/page-concat/{features(q, 1, limit)}',
                            f'pages of size {limit} concatenate to {cat}, '
                            f'full list {full}',
                            {'content': content, 'query': qrepr(q),
                             'limit': limit},
                        )
        # facets
        names = ['runids', 'targets', 'tasks', 'algs', 'svs']
        pos = {n: i for i, n in enumerate(names)}
        for empty in names[1:]:
            for r, tg, al in itertools.product(
                [None, '1:3', '2'], [None, ['A']], [None, ['ab']]
            ):
                q = qdict(r, tg, None, al, None, None)
                if q[empty] is not None:
                    continue
                q[empty] = []
                ctx.count('facet_calls')
                try:
                    got = search.facet(Params(**q))
                except Exception as e:  # noqa
                    ctx.violation(
                        f'C17/facet-raises/{type(e).__name__}/{empty}',
                        f'facet raised {e!r}',
                        {'content': content, 'query': qrepr(q)},
                    )
                    continue
                q2 = dict(q)
                q2[empty] = None
                want = sorted({str(k[pos[empty]]) for k in ref_find(content, q2)})
                if list(got) != want:
                    ctx.violation(
                        f'C17/facet/{empty}/{features(q2, 0, None)}',
                        f'facet {empty} returned {got}, reference {want}',
                        {'content': content, 'query': qrepr(q)},
                    )
        if ctx.flooded(FLOOD):
            out = ctx.export()
            out['nontrivial'] = []
            out['sample'] = {'content': content, 'query': 'stopped early: too many violations'}
            return out
        front_end(ctx, content)
        if do_expr:
            for expr in all_expressions(do_expr):
                if ctx.flooded(FLOOD):
                    break
                q = qdict(expr, None, None, None, None, None)
                check_find(ctx, search, content, q)
                ctx.count('expr_finds')
        out = ctx.export()
        out['nontrivial'] = [list(x) for x in nontrivial]
        out['sample'] = {'content': content,
                         'query': qrepr(qdict(*combo))}
        return out
    finally:
        w.close()


def front_end(ctx, content):
    '''the user-facing entry points (fe.api.facet.*, fe.api.database.search)
    called the way DynamicContent calls them: URL-style parameters = lists of
    comma separated strings, JSON reply'''
    import json
    import dawgie.fe.api.facet as facet
    import dawgie.fe.api.database as database

    names = ['runids', 'targets', 'tasks', 'algs', 'svs']
    pos = {n: i for i, n in enumerate(names)}
    menu = {'runids': [None, ['1:4']], 'targets': [None, ['A'], ['A, B']], 'tasks': [None, ['t']],
            'algs': [None, ['a'], ['a,ab']], 'svs': [None, ['s'], ['sx']]}
    fns = {'targets': facet.target, 'tasks': facet.task, 'algs': facet.alg, 'svs': facet.sv}

    def split(v):
        return None if v is None else [x.strip() for x in v[0].split(',')]

    for level, fn in fns.items():
        others = [n for n in names if n != level]
        for combo in itertools.product(*(menu[n] for n in others)):
            kw = dict(zip(others, combo))
            ctx.count('fe_facet_calls')
            try:
                reply = json.loads(fn(**kw))
            except Exception as e:  # noqa
                ctx.violation(f'C17/fe-facet-raises/{level}/{type(e).__name__}', f'facet.{fn.__name__}({kw}) raised {e!r}',
                              {'content': content, 'endpoint': level, 'params': kw})
                continue
            q = {n: (kw[n][0] if n == 'runids' and kw.get(n) else split(kw.get(n))) for n in names}
            q[level] = None
            q['vals'] = None
            want = sorted({str(k[pos[level]]) for k in ref_find(content, q)})
            if reply.get('content') != want:
                given = '+'.join(sorted(n for n in others if kw[n] is not None)) or 'nothing'
                ctx.violation(f'C17/fe-facet/{level}/given-{given}',
                              f'facet.{fn.__name__}({kw}) answered {reply.get("content")}, reference {want}',
                              {'content': content, 'endpoint': level, 'params': kw})
    for combo in itertools.product(*(menu[n] for n in names)):
        kw = dict(zip(names, combo))
        whole = None    # the end point's own unpaged answer: pages are slices of it
        for index, limit in ((None, None), (['1'], ['2']), (['1'], None), (None, ['2']), (['9'], None)):
            ctx.count('fe_search_calls')
            try:
                reply = json.loads(database.search(index=index, limit=limit, **kw))['content']
            except Exception as e:  # noqa
                ctx.violation(f'C17/fe-search-raises/{type(e).__name__}', f'database.search({kw}) raised {e!r}',
                              {'content': content, 'params': kw})
                continue
            q = {n: (kw[n][0] if n == 'runids' and kw.get(n) else split(kw.get(n))) for n in names}
            q['vals'] = None
            full = [as_item(k) for k in sorted(ref_find(content, q), key=lambda k: (k[0],) + tuple(map(str, k[1:])))]
            i = int(index[0]) if index else 0
            exp = full[i:i + int(limit[0])] if limit else full[i:]
            if index is None and limit is None:
                whole = list(reply.get('items', []))
                if sorted(whole) != sorted(full):
                    ctx.violation('C17/fe-search/items', f'database.search({kw}) items {whole}, reference {full}',
                                  {'content': content, 'params': kw})
                if [int(x.split('.')[0]) for x in whole] != sorted(int(x.split('.')[0]) for x in whole):
                    ctx.violation('C17/fe-search/order', f'database.search({kw}) items {whole} are not in ascending run-id order',
                                  {'content': content, 'params': kw})
            elif whole is not None:
                # entries with equal run id have no prescribed order: a page is
                # judged against the end point's own full list
                page = whole[i:i + int(limit[0])] if limit else whole[i:]
                if list(reply.get('items', [])) != page:
                    ctx.violation('C17/fe-search/page', f'database.search({kw}, index={index}, limit={limit}) items '
                                  f'{reply.get("items")}, the same query unpaged gives {whole}',
                                  {'content': content, 'params': kw, 'index': index, 'limit': limit})
            if reply.get('total') != len(full):
                ctx.violation('C17/fe-search/total', f'database.search({kw}) total {reply.get("total")}, reference {len(full)}',
                              {'content': content, 'params': kw})
            if limit and len(reply.get('items', [])) != len(exp):
                ctx.violation('C17/fe-search/page-size', f'database.search({kw}, index=1, limit=2) returned '
                              f'{len(reply.get("items", []))} items, reference {len(exp)}', {'content': content, 'params': kw})


def work_scrub(args):
    '''denotation before == after _scrub for a slice of all expressions'''
    tier, seed, shard, nshards, maxterms = args
    from dawgie.db.basis import Params, Range, SearchFacade

    ctx = common.Ctx('C17', tier, seed, LEVEL)
    distinct = set()
    for n, expr in enumerate(all_expressions(maxterms)):
        if n % nshards != shard:
            continue
        ctx.count('scrub_exprs')
        before = ref_denote(expr)
        try:
            after = impl_denote(SearchFacade._scrub(Params(runids=expr)).runids)
        except Exception as e:  # noqa
            ctx.violation(
                f'C17/scrub-raises/{type(e).__name__}',
                f'_scrub({expr!r}) raised {e!r}', {'runids': expr})
            continue
        distinct.add(frozenset(before))
        if before != after:
            ctx.violation(
                'C17/scrub-denotation',
                f'_scrub({expr!r}) denotes {sorted(after)} but the expression '
                f'denotes {sorted(before)}', {'runids': expr})
        # list / Range object form of the same expression
        singles, ranges = ref_terms(expr)
        form = sorted(singles) + [Range(lo, hi) for lo, hi in ranges]
        after2 = impl_denote(SearchFacade._scrub(Params(runids=form)).runids)
        if before != after2:
            ctx.violation(
                'C17/scrub-denotation/list-form',
                f'_scrub({form!r}) denotes {sorted(after2)} but the list '
                f'denotes {sorted(before)}', {'runids': repr(form)})
    out = ctx.export()
    out['distinct'] = [sorted(d) for d in distinct]
    return out


def run(ctx):
    from . import world

    world.validate_digest_seam(common.scratch_root())
    quick = ctx.quick()
    maxterms = 3
    # stores on which every expression goes through find()
    expr_stores = {0b11111111: 2, 0b10110101: 2}
    if not quick:
        expr_stores = {0b11111111: 3, 0b10110101: 3, 0b01001010: 2}
    jobs = [(ctx.tier, ctx.seed, m, expr_stores.get(m, 0)) for m in range(256)]
    ctx.rng.shuffle(jobs)
    nsh = 16
    sjobs = [(ctx.tier, ctx.seed, s, nsh, maxterms) for s in range(nsh)]
    results = common.pmap(work_store, jobs)
    nontrivial = set()
    for r in results:
        ctx.merge(r)
        nontrivial.update(tuple(x) for x in r['nontrivial'])
        ctx.sample(r['sample'])
    distinct = set()
    for r in common.pmap(work_scrub, sjobs):
        ctx.merge(r)
        distinct.update(tuple(d) for d in r['distinct'])
    evals = sum(ctx.counters.get(k, 0) for k in
                ('find_calls', 'facet_calls', 'scrub_exprs', 'fe_facet_calls', 'fe_search_calls'))
    ctx.assumptions += [
        'shelve back end only (no PostgreSQL server in the sandbox)',
        'a range a:b denotes a <= r < b, as dawgie.db.basis.Range.__contains__ defines it',
        "run id -1 ('latest') is excluded: the property does not fix its meaning",
        'one version per algorithm/state vector/value, so collapsing to state-vector names is injective',
    ]
    cov = {
        'evaluations': evals,
        'distinct_nontrivial': len(nontrivial) + len(distinct),
        'rule': 'every subset of the 8-key universe (256 stores) x every '
                'constraint combination of the menus x pages x facets; on every store the front-end entry points '
                '(fe.api.facet.target/task/alg/sv and fe.api.database.search, URL-style parameters, JSON reply) for '
                'every combination of a parameter menu; every '
                f'run-id expression of <= {maxterms} terms. distinct_nontrivial = '
                'number of distinct non-empty result lists returned by find() '
                'plus distinct run-id sets denoted by the expressions',
        'stores': 256,
        'distinct_result_lists': len(nontrivial),
        'distinct_runid_sets': len(distinct),
    }
    return common.finish(ctx, cov, exhaustive=True)


def replay(data):
    '''re-run one recorded case without the explorer'''
    from dawgie.db.basis import Params, Range  # noqa: F401
    import dawgie.db

    r = data['replay']
    if 'content' not in r:
        from dawgie.db.basis import SearchFacade
        expr = r['runids']
        try:
            expr = eval(expr, {'Range': Range})  # list form was repr()ed
        except Exception:  # noqa
            pass
        got = SearchFacade._scrub(Params(runids=expr)).runids
        print('scrub', expr, '->', got, 'denotes', sorted(impl_denote(got)),
              'reference', sorted(ref_denote(expr)))
        return 1 if impl_denote(got) != ref_denote(expr) else 0
    content = [tuple(k) for k in r['content']]
    w = build_store(content)
    try:
        q = dict(r['query'])
        q['runids'] = eval(q['runids'], {'Range': Range})
        res = dawgie.db.search().find(Params(**q), r.get('index') or 0,
                                      r.get('limit'))
        want = sorted(as_item(k) for k in ref_find(content, q))
        print('content', content)
        print('query', q, 'index', r.get('index'), 'limit', r.get('limit'))
        print('returned', list(res.items), 'total', res.total)
        print('reference (unpaged)', want)
        idx, lim = r.get('index') or 0, r.get('limit')
        exp = want[idx:(idx + lim) if lim is not None else None]
        bad = sorted(res.items) != sorted(exp) or res.total != len(want)
        print('VIOLATES' if bad else 'ok')
        return 1 if bad else 0
    finally:
        w.close()
