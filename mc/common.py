'''Shared runner machinery for the DAWGIE model-checking checks.

Every check module exposes  run(ctx)  where ctx is a Ctx (tier, seed, evidence
collectors, violation reporting).  bin/check drives it.

Nothing here imports dawgie at module import time; call bootstrap() first.
'''

import hashlib
import json
import os
import random
import shutil
import sys
import tempfile
import time
import traceback

VERIF = os.path.dirname(os.path.dirname(os.path.abspath(__file__)))
REPO = os.environ.get('VERIF_REPO', '/repo')
PYROOT = os.path.join(REPO, 'Python')


class HarnessBroken(Exception):
    '''the harness itself is wrong (exit 2) - never a VIOLATION'''


class CodeRaised(Exception):
    '''an exception that left the code under test (innermost frame inside the
    dawgie sources) at a place where the harness did not expect one.  Reported
    as a violation of the property being checked (the operation the property
    talks about failed), not as a harness error.'''

    def __init__(self, kind, where, tb):
        Exception.__init__(self, f'{kind} in {where}')
        self.kind, self.where, self.tb = kind, where, tb


def classify_exception(exc):
    '''(kind, where) if the innermost frame of exc is code under test, else None'''
    tb = exc.__traceback__
    last = None
    while tb is not None:
        last = tb
        tb = tb.tb_next
    if last is None:
        return None
    fn = last.tb_frame.f_code.co_filename
    if os.path.realpath(fn).startswith(os.path.realpath(PYROOT) + os.sep):
        rel = os.path.relpath(os.path.realpath(fn), os.path.realpath(PYROOT))
        return type(exc).__name__, f'{rel}:{last.tb_frame.f_code.co_name}'
    return None


class GraphMismatch(Exception):
    '''the task graph built by the real code lacks an algorithm the engine
    declares: reported as a violation by the scheduler checks (such an
    algorithm can never be released, withheld or re-run)'''


_BOOTED = False


def bootstrap(reactor=True):
    '''put the working tree first on sys.path, install the deterministic
    reactor *before* dawgie is imported and verify which dawgie we got'''
    global _BOOTED
    if _BOOTED:
        return
    os.environ.setdefault('PYTHONHASHSEED', '0')
    if PYROOT in sys.path:
        sys.path.remove(PYROOT)
    sys.path.insert(0, PYROOT)
    if reactor:
        import twisted.internet.main
        from twisted.internet.testing import MemoryReactorClock

        if 'twisted.internet.reactor' not in sys.modules:
            twisted.internet.main.installReactor(MemoryReactorClock())
    import logging

    logging.disable(logging.CRITICAL)
    import dawgie

    got = os.path.realpath(dawgie.__file__)
    if not got.startswith(os.path.realpath(PYROOT) + os.sep):
        raise HarnessBroken(f'dawgie imported from {got}, not from {PYROOT}')
    _BOOTED = True


def scratch_root():
    base = '/dev/shm' if os.path.isdir('/dev/shm') else tempfile.gettempdir()
    d = os.path.join(base, f'verif-{os.getpid()}')
    os.makedirs(d, exist_ok=True)
    return d


def cleanup_scratch():
    base = '/dev/shm' if os.path.isdir('/dev/shm') else tempfile.gettempdir()
    d = os.path.join(base, f'verif-{os.getpid()}')
    shutil.rmtree(d, ignore_errors=True)


def digest(obj):
    return hashlib.sha1(
        json.dumps(obj, sort_keys=True, default=repr).encode()
    ).hexdigest()


class Ctx:
    '''per-run context: evidence, violations, known findings'''

    def __init__(self, pid, tier, seed, level):
        self.pid = pid
        self.tier = tier
        self.seed = seed
        self.level = level
        self.rng = random.Random(seed)
        self.t0 = time.time()
        self.coverage = {}
        self.assumptions = []
        self.samples = []
        self._sample_n = 0
        self.counters = {}
        self.violations = {}  # signature -> dict(what, replay, count)
        self.known = _load_known()
        self.caps = []

    # ---- evidence helpers
    def count(self, key, n=1):
        self.counters[key] = self.counters.get(key, 0) + n

    def sample(self, case, k=8):
        '''reservoir sample of explored cases (seed only affects which)'''
        self._sample_n += 1
        if len(self.samples) < k:
            self.samples.append(case)
        else:
            j = self.rng.randrange(self._sample_n)
            if j < k:
                self.samples[j] = case

    def cap(self, text):
        self.caps.append(text)

    def quick(self):
        return self.tier == 'quick'

    # ---- violations
    def violation(self, signature, what, replay):
        '''record a violation; signature = oracle clause + minimal culprit'''
        v = self.violations.get(signature)
        if v is None:
            self.violations[signature] = {
                'what': what,
                'replay': replay,
                'count': 1,
            }
        else:
            v['count'] += 1

    def flooded(self, limit=2000):
        '''so many violations that going on only costs time and memory (a
        broken tree can make every further case fail): the worker stops early'''
        return sum(v['count'] for v in self.violations.values()) >= limit

    def merge(self, other):
        '''merge a worker's partial result dict (see export())'''
        for k, n in other['counters'].items():
            self.count(k, n)
        for s in other['samples']:
            self.sample(s)
        for sig, v in other['violations'].items():
            mine = self.violations.get(sig)
            if mine is None:
                self.violations[sig] = v
            else:
                mine['count'] += v['count']
        self.caps.extend(other.get('caps', []))

    def export(self):
        return {
            'counters': self.counters,
            'samples': self.samples,
            'violations': self.violations,
            'caps': self.caps,
        }


def _load_known():
    fn = os.path.join(VERIF, 'known_findings.json')
    if not os.path.exists(fn):
        return []
    with open(fn, encoding='utf-8') as f:
        return json.load(f)['findings']


def finish(ctx: Ctx, coverage: dict, exhaustive: bool):
    '''write evidence, print KNOWN-FINDING / VIOLATION lines, return exit code'''
    import fnmatch

    evdir = os.environ.get('VERIF_EVIDENCE_DIR') or os.path.join(VERIF, 'evidence')
    rpdir = os.path.join(evdir, 'replays') if os.environ.get('VERIF_EVIDENCE_DIR') else os.path.join(VERIF, 'replays')
    os.makedirs(evdir, exist_ok=True)
    os.makedirs(rpdir, exist_ok=True)
    new, known = [], []
    for sig, v in sorted(ctx.violations.items()):
        hit = None
        for k in ctx.known:
            if (
                k.get('status') == 'known'
                and k['property'] == ctx.pid
                and fnmatch.fnmatchcase(sig, k['signature'])
            ):
                hit = k
                break
        (known if hit else new).append((sig, v, hit))
    rc = 0
    for sig, v, k in known:
        print(f'KNOWN-FINDING: property={ctx.pid} {sig} :: {k["what"]}')
    # a known finding listed but no longer observed is only reported as info
    seen_known = {k['signature'] for _s, _v, k in known}
    for k in ctx.known:
        if (
            k.get('status') == 'known'
            and k['property'] == ctx.pid
            and k['signature'] not in seen_known
        ):
            print(
                f'note: listed finding not observed in this run: {k["signature"]}'
            )
    for n, (sig, v, _k) in enumerate(new):
        path = os.path.join(rpdir, f'{ctx.pid}-{digest(sig)[:10]}.json')
        with open(path, 'w', encoding='utf-8') as f:
            json.dump(
                {
                    'property': ctx.pid,
                    'signature': sig,
                    'what': v['what'],
                    'replay': v['replay'],
                },
                f,
                indent=1,
                default=repr,
            )
        print(f'VIOLATION property={ctx.pid} replay={path}')
        print(f'  signature: {sig}')
        print(f'  what: {v["what"]}')
        print(f'  occurrences: {v["count"]}')
        rc = 1
    cov = dict(coverage)
    cov.setdefault('samples', ctx.samples or ['(none)'])
    cov['exhaustive'] = bool(exhaustive and not ctx.caps)
    cov['caps_hit'] = ctx.caps
    cov['counters'] = dict(sorted(ctx.counters.items()))
    cov['known_findings_observed'] = [s for s, _v, _k in known]
    ev = {
        'property_id': ctx.pid,
        'tier': ctx.tier,
        'seed': ctx.seed,
        'level': ctx.level,
        'coverage': cov,
        'assumptions': ctx.assumptions,
        'wall_s': round(time.time() - ctx.t0, 3),
        'violations': len(new),
        'repo': REPO,
    }
    with open(os.path.join(evdir, f'{ctx.pid}.json'), 'w', encoding='utf-8') as f:
        json.dump(ev, f, indent=1, default=repr)
    brief = {
        k: cov[k]
        for k in (
            'states',
            'transitions',
            'evaluations',
            'distinct_nontrivial',
            'traces_validated_against_impl',
            'exhaustive',
        )
        if k in cov
    }
    print(
        f'{ctx.pid} tier={ctx.tier} seed={ctx.seed} {brief} '
        f'violations={len(new)} known={len(known)} wall={ev["wall_s"]}s'
    )
    return rc


# ---------------------------------------------------------------- parallel map


def pmap(func, items, procs=None, chunk=None):
    '''fork-based ordered map; func must be a module-level callable or closure
    (fork start method, so closures are fine).  Exceptions propagate as
    HarnessBroken with the traceback text.'''
    import multiprocessing as mp

    items = list(items)
    if not items:
        return []
    procs = procs or min(len(items), int(os.environ.get('VERIF_PROCS', '16')))
    if procs <= 1 or len(items) == 1:
        return [func(i) for i in items]
    ctx = mp.get_context('fork')
    global _PFUNC
    _PFUNC = func
    with ctx.Pool(procs) as pool:
        out = pool.map(_pcall, items, chunksize=chunk or 1)
    res = []
    for ok, val in out:
        if not ok:
            if isinstance(val, tuple):
                raise CodeRaised(*val)
            raise HarnessBroken('worker failed:\n' + val)
        res.append(val)
    return res


_PFUNC = None


def _pcall(item):
    try:
        return True, _PFUNC(item)
    except HarnessBroken:
        return False, traceback.format_exc()
    except BaseException as e:  # noqa
        c = classify_exception(e)
        if c is not None:
            return False, (c[0], c[1], traceback.format_exc())
        return False, traceback.format_exc()
    finally:
        cleanup_scratch()
