'''C04 - see DESIGN.md section 2 (C04).

State graph of the real scheduler+farm (pl.schedule, pl.farm, pl.dag) per
engine, explored to a fixpoint under the stated bounds; oracle evaluated at
every release against the *generator's* dependency closure and the harness's
own in-flight ground truth (task messages decoded from worker transports).
'''
from . import common, aegen, schedcheck

LEVEL = 'model_checking'
PID = 'C04'


def jobs(ctx, props):
    E = aegen.chain_engines()
    out = []
    quick = ctx.quick()
    for name, desc in E.items():
        for targets in (['A'], ['A', 'B']):
            if quick and len(targets) == 2 and name in ('diamond', 'join', 'task-analysis-task', 'shared-input'):
                reqs = 1
            else:
                reqs = 2
            if not quick:
                reqs = 2 if len(desc['algs']) >= 4 and len(targets) == 2 else 3
            out.append((name, desc, targets, props, {'reqs': reqs}))
    # the empty target list (a run request that names no target)
    for name in ('pair', 'chain2', 'task-analysis', 'task-analysis-task'):
        desc = E[name]
        eng = aegen.Engine(desc)
        menu = []
        for tag in eng.tags():
            menu.append((tag, ()))
            menu.append((tag, ('A',)))
        out.append((name + '/empty-targets', desc, ['A'], props,
                    {'reqs': 2 if quick else 3, 'req_menu': menu}))
    # one transient data-base outage: the first db.next() draw of some dispatch
    # raises (farm.dispatch is written to survive exactly this)
    for name in ('single', 'chain2', 'pair', 'task-analysis'):
        out.append((name + '/db-outage', E[name], ['A', 'B'] if name in ('single', 'pair') else ['A'], props,
                    {'reqs': 2, 'faults': 1 if quick else 2}))
    # one reply arriving while the history journal cannot be written (the write
    # raises): whatever else is lost, the unit must not stay "executing" for ever
    for name in ('single', 'chain2', 'pair'):
        out.append((name + '/journal-outage', E[name], ['A', 'B'] if name in ('single', 'pair') else ['A'], props,
                    {'reqs': 2, 'faults': 1, 'journal_faults': True, 'outcomes': ('success', 'failure')}))
    out += schedcheck.timer_jobs(props, quick)
    return out


def run(ctx):
    states, transitions, selfchecked, per = schedcheck.run(ctx, PID, jobs(ctx, {PID}))
    for p in per[:6]:
        ctx.sample(p)
    cov = {
        'states': states, 'transitions': transitions,
        'traces_validated_against_impl': selfchecked,
        'explanation': 'exploration is on the implementation itself (no separate model): every '
                       'transition executes the real pl.schedule/pl.farm code; '
                       'traces_validated = histories re-executed from scratch without '
                       'snapshot/restore and required to reach the same canonical state',
        'per_engine': per,
    }
    return common.finish(ctx, cov, exhaustive=True)


def replay(data):
    return schedcheck.replay(data)
