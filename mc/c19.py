'''C19 - the front end never serves files outside its roots nor commands to
strangers.

(a) scratch tree: two site roots (AE front-end directory, site directory) with
files, a directory tree *outside* both holding uniquely tagged secrets (same
relative names as files inside, so a jail break finds something), symlinks
inside a root pointing inside and outside.  EVERY request path of <= N segments
over a 12-symbol alphabet ('..', '.', '', names, links, encoded dots) x 0..2
leading slashes x query string or not x both isdep settings goes through the
real fe._static.  Oracle: no file opened during the call resolves outside the
roots, and the returned bytes never contain the token of an outside file.
(b) every DynamicContent reachable by walking fe.basis._root x 4 HTTP methods x
client certificates configured or not x certificate presented or not x access
hook in {default, returns True, returns False, raises, unresolvable}: the
handler may run without a certificate (certificates configured) only when the
endpoint is not one of run / reset / submit / snapshot, and never when the hook
raises or cannot be resolved.
'''

import itertools
import os
import shutil

from . import common

LEVEL = 'exploration'
SEGS = ['..', '.', '', 'a.txt', 'sub', 'index.html', 'in_link', 'out_link', '%2e%2e', 'secret.txt',
        'root1x', 'linked_dir']


def build_tree(base):
    shutil.rmtree(base, ignore_errors=True)
    r1, r2, out = (os.path.join(base, 'jail', x) for x in ('root1', 'root2', 'outside'))
    for d in (r1, r2, out):
        os.makedirs(os.path.join(d, 'sub'))

    def put(path, text):
        with open(path, 'w', encoding='utf-8') as f:
            f.write(text)

    for r, tag in ((r1, 'ROOT1'), (r2, 'ROOT2')):
        put(os.path.join(r, 'a.txt'), f'{tag}-a')
        put(os.path.join(r, 'index.html'), f'<html>{tag}-index</html>')
        put(os.path.join(r, 'sub', 'a.txt'), f'{tag}-sub-a')
        put(os.path.join(r, 'sub', 'index.html'), f'<html>{tag}-sub-index</html>')
    # outside: every name a request could land on after escaping
    for rel in ('secret.txt', 'a.txt', 'index.html', 'sub/a.txt', 'sub/index.html', 'sub/secret.txt'):
        put(os.path.join(out, rel), 'OUTSIDE-TOKEN-' + rel)
    jail = os.path.join(base, 'jail')
    for rel in ('secret.txt', 'a.txt', 'index.html'):
        put(os.path.join(jail, rel), 'OUTSIDE-TOKEN-jail-' + rel)
        put(os.path.join(base, rel), 'OUTSIDE-TOKEN-base-' + rel)
    os.makedirs(os.path.join(jail, 'sub'), exist_ok=True)
    put(os.path.join(jail, 'sub', 'a.txt'), 'OUTSIDE-TOKEN-jail-sub-a')
    put(os.path.join(jail, 'root1', 'secret.txt'), 'ROOT1-public-secret-name')
    for r in (r1, r2):
        os.symlink(os.path.join(r, 'sub'), os.path.join(r, 'in_link'))
        os.symlink(out, os.path.join(r, 'out_link'))
    os.symlink(os.path.join(out, 'secret.txt'), os.path.join(r2, 'sub', 'secret.txt'))
    # siblings whose names merely start with a root's name
    for sib in ('root1x', 'root2x'):
        os.makedirs(os.path.join(jail, sib, 'sub'))
        for rel in ('a.txt', 'secret.txt', 'index.html', 'sub/a.txt'):
            put(os.path.join(jail, sib, rel), f'OUTSIDE-TOKEN-{sib}-{rel}')
    # a directory inside a root whose index.html is a link to the outside
    for r in (r1, r2):
        os.makedirs(os.path.join(r, 'linked_dir'))
        os.symlink(os.path.join(out, 'index.html'), os.path.join(r, 'linked_dir', 'index.html'))
    return r1, r2, out


def work_static(args):
    tier, seed, shard, nshards, depth = args
    import dawgie.context
    import dawgie.fe as fe
    import builtins

    ctx = common.Ctx('C19', tier, seed, LEVEL)
    base = os.path.join(common.scratch_root(), 'c19')
    r1, r2, out = build_tree(base)
    dawgie.context.fe_path = r1
    roots = [os.path.realpath(r1), os.path.realpath(r2)]
    opened = []

    def spy_open(file, *a, **k):
        opened.append(os.path.realpath(os.fspath(file)))
        return builtins.open(file, *a, **k)

    fe.open = spy_open
    saved_active = fe._is_active
    fe._is_active = lambda fn: True
    outcomes = set()
    try:
        n = -1
        for size in range(1, depth + 1):
            for combo in itertools.product(SEGS, repeat=size):
                n += 1
                if n % nshards != shard:
                    continue
                path = '/'.join(combo)
                for lead in ('', '/', '//'):
                    for q in ('', '?x=1'):
                        for isdep in (False, True):
                            uri = lead + path + q
                            del opened[:]
                            ctx.count('requests')
                            try:
                                got = fe._static(uri, r2, isdep, None)
                            except Exception as e:  # noqa
                                outcomes.add(('exc', type(e).__name__))
                                continue
                            esc = [o for o in opened if not any(
                                o == r or o.startswith(r + os.sep) for r in roots)]
                            leak = isinstance(got, bytes) and b'OUTSIDE-TOKEN' in got
                            outcomes.add(got[:40] if isinstance(got, bytes) else repr(got)[:40])
                            if esc or leak:
                                how = 'dotdot' if '..' in combo else (
                                    'symlink' if 'out_link' in combo or 'secret.txt' in combo else 'other')
                                ctx.violation(
                                    f'C19/static-escapes-root/{how}',
                                    f'GET {uri!r} (isdep={isdep}) opened {esc} and returned {got[:60]!r}',
                                    {'uri': uri, 'isdep': isdep})
                if n % 997 == 0:
                    ctx.sample({'uri': '/' + path})
    finally:
        fe._is_active = saved_active
        del fe.open
        shutil.rmtree(base, ignore_errors=True)
    out_ = ctx.export()
    out_['outcomes'] = len(outcomes)
    return out_


class FakeTransport:
    def __init__(self, cert):
        self._cert = cert

    def getPeerCertificate(self):
        return self._cert


class FakeRequest:
    def __init__(self, cert, has_method=True):
        self.transport = FakeTransport(cert) if has_method else object()
        self.args = {}
        self.uri = b'/x'

    def setHeader(self, *a):
        pass

    def setResponseCode(self, *a):
        pass


def hook_true(endpoint, cert):
    return True


def hook_false(endpoint, cert):
    return False


def hook_raises(endpoint, cert):
    raise RuntimeError('access hook failure')


SENSITIVE = ('run', 'reset', 'submit', 'snapshot')


def endpoints():
    import dawgie.fe  # noqa: F401  (registers api + app endpoints)
    import dawgie.fe.basis as basis

    found = {}
    stack = [('', basis._root)]
    while stack:
        prefix, node = stack.pop()
        for name, child in getattr(node, 'children', {}).items():
            p = prefix + '/' + name.decode()
            if isinstance(child, basis.DynamicContent):
                found[p] = child
            else:
                stack.append((p, child))
    return found


def make_pem(name):
    '''a self-signed client certificate (PEM text)'''
    import datetime
    from cryptography import x509
    from cryptography.x509.oid import NameOID
    from cryptography.hazmat.primitives import hashes, serialization
    from cryptography.hazmat.primitives.asymmetric import ec
    k = ec.generate_private_key(ec.SECP256R1())
    n = x509.Name([x509.NameAttribute(NameOID.COMMON_NAME, name)])
    c = x509.CertificateBuilder().subject_name(n).issuer_name(n).public_key(k.public_key()).serial_number(1) \
        .not_valid_before(datetime.datetime(2020, 1, 1)).not_valid_after(datetime.datetime(2040, 1, 1)) \
        .sign(k, hashes.SHA256())
    return c.public_bytes(serialization.Encoding.PEM).decode()


# guest key directory layouts loaded through the real security._tls_initialize
# (documented pattern: dawgie.public.pem*); value = client certificates present
KEY_DIRS = {
    'dir:plain': (['dawgie.public.pem'], True),
    'dir:suffixed': (['dawgie.public.pem.alice'], True),
    'dir:two-suffixed+noise': (['dawgie.public.pem.alice', 'dawgie.public.pem_bob', 'README'], True),
    'dir:noise-only': (['README', 'dawgie.public.txt'], False),
    'dir:empty': ([], False),
}


def configure(conf, scratch):
    '''returns True when client certificates are configured'''
    import dawgie.security as sec
    import shutil
    if conf in (False, True):
        del sec._certs[:]
        if conf:
            sec._certs.append('a-client-certificate')
        return conf
    files, present = KEY_DIRS[conf]
    d = os.path.join(scratch, 'keys-' + conf.replace(':', '-'))
    shutil.rmtree(d, ignore_errors=True)
    os.makedirs(d)
    for fn in files:
        with open(os.path.join(d, fn), 'wt', encoding='utf-8') as f:
            f.write(make_pem(fn) if fn.startswith('dawgie.public.pem') else 'not a certificate')
    sec._tls_initialize(path=d)
    return present


def part_access(ctx):
    import dawgie.context
    import dawgie.security as sec
    import dawgie.fe.basis as basis

    eps = endpoints()
    if len(eps) < 40:
        raise common.HarnessBroken(f'only {len(eps)} endpoints found by walking the route tree')
    hooks = {
        'default': 'dawgie.security.is_sanctioned',
        'true': 'mc.c19.hook_true',
        'false': 'mc.c19.hook_false',
        'raises': 'mc.c19.hook_raises',
        'unresolvable': 'no.such.module.fn',
    }
    methods = {'GET': 'render_GET', 'POST': 'render_POST', 'PUT': 'render_PUT', 'DELETE': 'render_DELETE'}
    saved_hook = dawgie.context.sanction_override
    saved_certs = list(sec._certs)
    saved_me, saved_sys = dict(sec._myself), dict(sec._system)
    verdicts = set()
    try:
        for uri, res in sorted(eps.items()):
            ran = []
            last_conf = [None, None]
            real = res._DynamicContent__fnc
            registered = res._DynamicContent__uri
            sens = registered.rstrip('/').split('/')[-1] in SENSITIVE

            class Stub(basis.DeferContainer):
                def __call__(self, **kw):
                    ran.append(kw)
                    return b'{}'

            res._DynamicContent__fnc = Stub()
            try:
                for conf, presented, (hname, hook), (mname, meth) in itertools.product(
                        (False, True) + tuple(KEY_DIRS), (None, 'CERT', 'NO-TLS'), hooks.items(), methods.items()):
                    if conf not in (False, True) and hname not in ('default',):
                        continue
                    if conf != last_conf[0]:
                        last_conf[:] = [conf, configure(conf, common.scratch_root())]
                    certs_conf = last_conf[1]
                    dawgie.context.sanction_override = hook
                    del ran[:]
                    req = FakeRequest(None if presented != 'CERT' else object(), presented != 'NO-TLS')
                    ctx.count('access_cases')
                    try:
                        getattr(res, meth)(req)
                    except Exception as e:  # noqa
                        ctx.violation(f'C19/access-raises/{type(e).__name__}',
                                      f'{mname} {registered} raised {e!r}', {'uri': registered})
                        continue
                    invoked = bool(ran)
                    anonymous = presented != 'CERT'
                    verdicts.add((registered, certs_conf, anonymous, hname, invoked))
                    case = {'uri': registered, 'method': mname, 'certs_configured': certs_conf, 'configuration': str(conf),
                            'cert_presented': presented, 'hook': hname}
                    if hname in ('raises', 'unresolvable', 'false') and invoked:
                        ctx.violation(f'C19/access/hook-{hname}-but-handler-ran',
                                      f'{mname} {registered}: handler ran although the access hook '
                                      f'{"denied" if hname == "false" else "failed"}', case)
                    if hname == 'default' and certs_conf and anonymous and sens and invoked:
                        ctx.violation('C19/access/anonymous-command/' + registered.split('/')[-1],
                                      f'{mname} {registered}: handler ran for a caller without certificate', case)
                    allowed_method = res._DynamicContent__methods.count(
                        {'GET': basis.HttpMethod.GET, 'POST': basis.HttpMethod.POST,
                         'PUT': basis.HttpMethod.PUT, 'DELETE': basis.HttpMethod.DEL}[mname]) > 0
                    if hname == 'default' and (not certs_conf or not anonymous) and allowed_method and not invoked:
                        ctx.violation('C19/access/legitimate-caller-denied',
                                      f'{mname} {registered}: handler did not run for a legitimate caller', case)
            finally:
                res._DynamicContent__fnc = real
        ctx.sample({'endpoints': sorted(eps)[:12], 'count': len(eps)})
    finally:
        dawgie.context.sanction_override = saved_hook
        sec._certs[:] = saved_certs
        sec._myself.clear()
        sec._myself.update(saved_me)
        sec._system.clear()
        sec._system.update(saved_sys)
    return len(verdicts), len(eps)


def part_restarts(ctx):
    '''the front end is (re)started with another site root in one process:
    every sequence of <= 3 starts over {site A, site B, bundled site}; after
    each start every path of a menu is requested through the static resource
    of fe.root(): what is served lies under the roots configured NOW'''
    import builtins
    import dawgie.context
    import dawgie.fe as fe
    import dawgie.fe.basis

    base = os.path.join(common.scratch_root(), 'c19-restarts')
    shutil.rmtree(base, ignore_errors=True)
    sites = {}
    for name in ('A', 'B'):
        d = os.path.join(base, 'site_' + name)
        os.makedirs(os.path.join(d, 'private'))
        for fn in (f'{name.lower()}.txt', 'index.html', os.path.join('private', 'keys.txt')):
            with open(os.path.join(d, fn), 'wt', encoding='utf-8') as f:
                f.write(f'TOKEN-{name}-{fn}')
        sites[name] = d
    sites['bundled'] = ''
    fe_root = os.path.join(base, 'fe')
    os.makedirs(fe_root)
    paths = ['/a.txt', '/b.txt', '/index.html', '/private/keys.txt', '/../site_A/a.txt', '/../site_B/b.txt',
             '//' + sites['A'] + '/a.txt', '/', '/private/../a.txt']
    saved = (dawgie.context.site_path, dawgie.context.fe_path, dawgie.fe.basis._root.static_pages, fe._is_active)
    opened = []

    def spy_open(file, *a, **k):
        opened.append(os.path.realpath(os.fspath(file)))
        return builtins.open(file, *a, **k)

    fe.open = spy_open
    fe._is_active = lambda fn: True
    dawgie.context.fe_path = fe_root
    try:
        for n in (1, 2, 3):
            for seq in itertools.product(sorted(sites), repeat=n):
                ctx.count('restart_sequences')
                dawgie.fe.basis._root.static_pages = None
                for i, name in enumerate(seq):
                    dawgie.context.site_path = sites[name]
                    res = fe.root().static_pages
                    allowed = [os.path.realpath(fe_root)]
                    if name != 'bundled':
                        allowed.append(os.path.realpath(sites[name]))
                    for uri in paths:
                        del opened[:]
                        req = FakeRequest(None)
                        req.uri = uri.encode()
                        ctx.count('requests')
                        try:
                            got = res.render_GET(req)
                        except Exception as e:  # noqa
                            ctx.violation(f'C19/restart/static-raises/{type(e).__name__}', f'{uri}: {e!r}',
                                          {'starts': list(seq[:i + 1]), 'uri': uri})
                            continue
                        body = got if isinstance(got, bytes) else str(got).encode()
                        for other in ('A', 'B'):
                            if other != name and f'TOKEN-{other}-'.encode() in body:
                                ctx.violation('C19/static-serves-a-root-no-longer-configured',
                                              f'starts {list(seq[:i + 1])}: GET {uri} returned content of site {other} '
                                              f'while the configured site is {name}', {'starts': list(seq[:i + 1]), 'uri': uri})
    finally:
        (dawgie.context.site_path, dawgie.context.fe_path, dawgie.fe.basis._root.static_pages, fe._is_active) = saved
        fe.open = builtins.open
        shutil.rmtree(base, ignore_errors=True)


def run(ctx):
    part_restarts(ctx)
    depth = 4 if ctx.quick() else 5
    nsh = 32
    outcomes = 0
    for r in common.pmap(work_static, [(ctx.tier, ctx.seed, s, nsh, depth) for s in range(nsh)]):
        ctx.merge(r)
        outcomes = max(outcomes, r['outcomes'])
    nverd, neps = part_access(ctx)
    c = ctx.counters
    ctx.assumptions += [
        'request.uri is passed as twisted delivers it (not percent-decoded), as StaticContent.render_GET does',
        'handlers are replaced by a recorder while the access decision is exercised; "command" endpoints are those whose '
        'last URI segment is run / reset / submit / snapshot']
    cov = {
        'evaluations': c.get('requests', 0) + c.get('access_cases', 0),
        'distinct_nontrivial': nverd + outcomes,
        'rule': f'(a) every path of <= {depth} segments over {len(SEGS)} symbols x 3 leading-slash forms x query/no query x '
                f'isdep; (b) {neps} endpoints found by walking the route tree x 4 methods x certs configured x '
                'cert presented/absent/no TLS transport x 5 access hooks; (c) every sequence of <= 3 front-end starts over '
                '{site A, site B, bundled site} x 9 request paths through fe.root().static_pages; distinct_nontrivial = distinct '
                '(endpoint, configuration, verdict) tuples + distinct static responses',
        'endpoints': neps,
    }
    return common.finish(ctx, cov, exhaustive=True)


def replay(data):
    import dawgie.context
    import dawgie.fe as fe
    r = data['replay']
    if 'isdep' not in r:
        print(r)
        return 0
    base = os.path.join(common.scratch_root(), 'c19')
    r1, r2, out = build_tree(base)
    dawgie.context.fe_path = r1
    got = fe._static(r['uri'], r2, r['isdep'], None)
    print('GET', r['uri'], '->', got[:80])
    bad = b'OUTSIDE-TOKEN' in got
    print('VIOLATES' if bad else 'ok')
    return 1 if bad else 0
