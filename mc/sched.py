'''Explorer adapter for the pipeline world + monitors for C01 C03 C04 C05 (C02
abstract tier lives in c02.py on top of this adapter).

Event alphabet (each check selects):
  ('req', tag, (targets...))       user run request (fe.api.cmd_run -> organize)
  ('tick',)                        farm.dispatch()
  ('reply', job, target, run, outcome[, newset])  worker holding that unit answers
  ('reg',) ('drop', i)             explicit farm: worker registers / disconnects
'''

import dawgie.pl.farm as farm
import dawgie.pl.schedule as schedule

from . import common
from .pipeworld import PipeWorld

OUTCOMES = ('success', 'success-none-new', 'failure', 'invalid')


class SchedAdapter:
    def __init__(self, desc, targets, props, reqs=2, mode='ample',
                 req_menu=None, outcomes=OUTCOMES, max_workers=2,
                 max_copies=2, double_reply=False, revs=None, life=False, poll=False,
                 max_life=2, clock_at=None, max_timers=0, faults=0, journal_faults=False, rereg=False):
        self.rereg = rereg
        self.faults = faults
        self.journal_faults = journal_faults
        import datetime
        if isinstance(clock_at, str):
            clock_at = datetime.datetime.fromisoformat(clock_at)
        self.max_timers = max_timers
        self.w = PipeWorld(desc, targets, mode=mode, clock_at=clock_at)
        # run ids grow with every run started only where the run-id oracle (C11)
        # needs it: with feedback loops they would make the state space infinite
        self.w.monotone_next = 'C11' in props
        self.eng = self.w.eng
        self.props = set(props)
        self.reqs = reqs
        self.mode = mode
        self.outcomes = outcomes
        self.max_workers = max_workers
        self.max_copies = max_copies
        self.double_reply = double_reply
        self.revs = revs or ('r1',)
        self.life = life
        self.poll = poll
        self.max_life = max_life
        self.req_menu = req_menu or self.default_req_menu(targets)
        self.anc = {t: self.eng.ancestry(self.eng.alg_of(t)) for t in self.eng.tags()}
        self.desc = {t: self.eng.descendants(t) for t in self.eng.tags()}
        self._wrap()

    def default_req_menu(self, targets):
        menu = []
        for tag in self.eng.tags():
            for t in targets:
                menu.append((tag, (t,)))
            if len(targets) > 1:
                menu.append((tag, tuple(targets)))
        return menu

    # -------------------------------------------------- instrumentation
    def _wrap(self):
        '''wrap (not replace) the few mutators whose calls the monitors need'''
        a = self
        self.log = []
        if getattr(schedule, '_verif_wrapped', False):
            # wrappers dispatch to the adapter currently installed
            schedule._verif_adapter[0] = self
            return
        schedule._verif_wrapped = True
        schedule._verif_adapter = [self]
        orig = {
            'purge': schedule.purge, 'complete': schedule.complete,
            'update': schedule.update, 'next_job_batch': schedule.next_job_batch,
            'organize': schedule.organize, '_put': farm._put,
        }
        depth = [0]

        def purge(node, target):
            top = depth[0] == 0
            depth[0] += 1
            try:
                if top:
                    schedule._verif_adapter[0].log.append(('purge', node.tag, target))
                return orig['purge'](node, target)
            finally:
                depth[0] -= 1

        def complete(job, runid, target, timing, status):
            schedule._verif_adapter[0].log.append(
                ('complete', job.tag, target, runid, status.name))
            return orig['complete'](job, runid, target, timing, status)

        def update(values, original, rid):
            schedule._verif_adapter[0].log.append(
                ('update', original.tag, rid, tuple(values or ())))
            return orig['update'](values, original, rid)

        def next_job_batch():
            out = orig['next_job_batch']()
            schedule._verif_adapter[0].log.append(
                ('batch', tuple((j.tag, tuple(sorted(j.get('do')))) for j in out)))
            return out

        def organize(task_names, runid=None, targets=None, event=None):
            schedule._verif_adapter[0].log.append(
                ('organize', tuple(sorted(task_names)), runid,
                 tuple(sorted(targets)) if targets else (), event))
            return orig['organize'](task_names, runid, targets, event)

        def _put(job, runid, target, where):
            schedule._verif_adapter[0].log.append(('put', job.tag, target or '__all__', runid))
            return orig['_put'](job, runid, target, where)

        schedule.purge = purge
        schedule.complete = complete
        schedule.update = update
        schedule.next_job_batch = next_job_batch
        schedule.organize = organize
        schedule.promote.organize = organize
        farm._put = _put
        errs = []
        oerr = farm.log.error

        def error(msg, *args, **kw):
            schedule._verif_adapter[0].log.append(('log.error', msg % args if args else msg))
            return oerr(msg, *args, **kw)

        farm.log.error = error
        oexc = farm.log.exception

        def exception(msg, *args, **kw):
            import sys
            schedule._verif_adapter[0].log.append(
                ('log.exception', msg, repr(sys.exc_info()[1])))
            return oexc(msg, *args, **kw)

        farm.log.exception = exception

    # -------------------------------------------------- explorer interface
    def initial(self):
        schedule._verif_adapter[0] = self
        self.w.boot()
        s = self.w.capture()
        s['reqs'] = 0
        s['mon'] = self.mon_initial()
        return s

    def mon_initial(self):
        return {'removed': ()}

    def canon(self, s):
        # the run-id counter only matters to the run-id oracle of C11 (with
        # feedback loops it grows without bound)
        extra = s.get('nexts', 0) if 'C11' in self.props else 0
        return (PipeWorld.canon(s), s['reqs'], self.mon_canon(s['mon']), extra)

    def mon_canon(self, m):
        return tuple(sorted(m.items()))

    def internal(self, ev):
        return (ev[0] in ('tick', 'reply')) and ev != ('tick', 'db-outage') \
            and not (ev[0] == 'reply' and str(ev[4]).endswith('!journal-outage'))

    def enabled(self, s):
        evs = []
        if s['reqs'] < self.reqs:
            for tag, tg in self.req_menu:
                evs.append(('req', tag, tg))
        evs.append(('tick',))
        if self.faults and s['mon'].get('faults', 0) < self.faults:
            # a dispatch during which the first db.next() draw raises
            evs.append(('tick', 'db-outage'))
        seen = set()
        for j, t, r, _u in s['inflight']:
            if (j, t, r) in seen:
                continue
            seen.add((j, t, r))
            for o in self.outcomes:
                evs.append(('reply', j, t, r, o))
            if self.journal_faults and s['mon'].get('faults', 0) < self.faults:
                # the reply arrives while the history journal cannot be written
                for o in self.outcomes[:2]:
                    evs.append(('reply', j, t, r, o + '!journal-outage'))
        if self.mode == 'explicit':
            if len(s['workers']) < self.max_workers:
                for rev in self.revs:
                    evs.append(('reg',) if len(self.revs) == 1 else ('reg', rev))
            for i in range(len(s['workers'])):
                evs.append(('drop', i))
            if self.rereg and s['mon'].get('rereg', 0) < 1 and s['workers']:
                evs.append(('rereg', 0))
        if self.max_timers and s.get('timed') and s['timed']['timers'] \
                and s['mon'].get('ntimer', 0) < self.max_timers:
            evs.append(('timer',))
        if self.poll:
            for rev in self.revs:
                evs.append(('poll', rev))
        if self.life == 'reload':
            # a reload of the same software at any moment (C03: "since the last (re)load")
            if s['mon'].get('life', 0) < self.max_life:
                evs.append(('life', 'reload', s['rev']))
        elif self.life and s['mon'].get('life', 0) < self.max_life:
            evs.append(('life', 'inactive' if s['active'] else 'active'))
            if s['rev'] != self.revs[-1]:
                evs.append(('life', 'reload', self.revs[-1]))
        return evs

    def apply(self, ev):
        w = self.w
        kind = ev[0]
        if kind == 'req':
            w.ev_req(ev[1], ev[2])
        elif kind == 'tick':
            w.ev_tick(fault=len(ev) > 1)
        elif kind == 'reply':
            _k, j, t, r, o = ev[:5]
            idx = [i for i, u in enumerate(w.inflight) if tuple(u[:3]) == (j, t, r)]
            if not idx:
                raise common.HarnessBroken(f'reply for unit not in flight: {ev}')
            if o.endswith('!journal-outage'):
                o = o.split('!')[0]
                w.journal_fault = True
            new = None
            if o == 'success-none-new':
                o, new = 'success', set()
            elif len(ev) > 5:
                new = set(ev[5])
            w.ev_reply(idx[0], o, new)
            w.journal_fault = False
        elif kind == 'reg':
            w.ev_reg(ev[1] if len(ev) > 1 else None)
        elif kind == 'timer':
            w.ev_timer()
        elif kind == 'poll':
            w.ev_poll(ev[1])
        elif kind == 'life':
            w.ev_life(*ev[1:])
        elif kind == 'drop':
            w.ev_drop(ev[1])
        elif kind == 'rereg':
            w.ev_rereg(ev[1])
        else:
            raise common.HarnessBroken(f'unknown event {ev}')

    def step(self, s, ev, report):
        schedule._verif_adapter[0] = self
        w = self.w
        w.restore(s)
        self.log = []
        before = self.snapshot_sets()
        self.apply(ev)
        ns = w.capture()
        ns['reqs'] = s['reqs'] + (1 if ev[0] == 'req' else 0)
        ns['mon'] = self.monitors(s, ev, before, ns, report)
        return ns

    def fresh_step(self, s, ev, report):
        '''apply ev on the live world (no restore) and run the monitors'''
        w = self.w
        self.log = []
        w.obs = []
        w.chron = []
        before = self.snapshot_sets()
        self.apply(ev)
        ns = w.capture()
        ns['reqs'] = s['reqs'] + (1 if ev[0] == 'req' else 0)
        ns['mon'] = self.monitors(s, ev, before, ns, report)
        return ns

    def replay(self, history, report=None):
        s = self.initial()
        for ev in history:
            s = self.fresh_step(s, ev, report or (lambda sig, what: None))
        return s

    # -------------------------------------------------- monitors
    def snapshot_sets(self):
        out = {}
        for tag, n in self.w.nodes.items():
            out[tag] = (tuple(n.get('todo')), tuple(sorted(n.get('doing'))),
                        tuple(sorted(n.get('do'))))
        return out

    def truth_exec(self, tag):
        '''targets of tag really executing or released-and-queued (ground truth)'''
        w = self.w
        out = {t for j, t, _r, _u in w.inflight if j == tag}
        out |= {(m.target or '__all__') for m in farm._cluster if m.jobid == tag}
        return out

    def busy_of(self, tag):
        '''pending or executing for C01/C04: node view union ground truth'''
        n = self.w.nodes[tag]
        return set(n.get('todo')) | set(n.get('doing')) | self.truth_exec(tag)

    def monitors(self, s, ev, before, ns, report):
        mon = dict(s['mon'])
        after = self.snapshot_sets()
        if ev[0] == 'life' and ev[1] == 'reload':
            # a new schedule: provenance of the old one says nothing about it
            mon = {k: v for k, v in mon.items() if k in ('life', 'taint', 'ntimer', 'next_calls')}
            before = after
        removed = dict(mon.get('removed', ()))
        # provenance: who last removed (tag,target) from `doing`
        for tag in after:
            gone = set(before[tag][1]) - set(after[tag][1])
            if gone:
                by = 'unknown'
                for entry in self.log:
                    if entry[0] == 'purge':
                        by = 'purge'
                    elif entry[0] == 'complete' and entry[1] == tag:
                        by = 'complete'
                        break
                for t in gone:
                    removed[(tag, t)] = by
            for t in set(after[tag][1]) - set(before[tag][1]):
                removed.pop((tag, t), None)
        mon['removed'] = tuple(sorted(removed.items()))
        # provenance: a unit released again while a copy of it is still in
        # flight, and why the scheduler did not see the first copy
        dup = dict(mon.get('dup', ()))
        prev_removed = dict(s['mon'].get('removed', ()))
        flying_before = {(j, t) for j, t, _r, _u in s['inflight']} | {
            (m.jobid, m.target or '__all__') for m in s['cluster']}
        for e in self.log:
            if e[0] == 'put' and (e[1], e[2]) in flying_before:
                dup[(e[1], e[2])] = prev_removed.get((e[1], e[2]), 'node-knows')
        flying_now = {(j, t) for j, t, _r, _u in self.w.inflight} | {
            (m.jobid, m.target or '__all__') for m in farm._cluster}
        for k in list(dup):
            if k not in flying_now:
                del dup[k]
        mon['dup'] = tuple(sorted(dup.items()))
        self.dup = dup
        # provenance: who last removed a node from the work queue
        deq = dict(mon.get('dequeued', ()))
        qb, qa = set(s['que']), set(ns['que'])
        for tag in qb - qa:
            by = 'unknown'
            if any(e[0] == 'complete' and e[1] == tag for e in self.log):
                by = 'complete'
            elif any(e[0] == 'purge' for e in self.log):
                by = 'purge'
            elif any(e[0] == 'organize' for e in self.log):
                by = 'organize'
            deq[tag] = by
        for tag in qa:
            deq.pop(tag, None)
        mon['dequeued'] = tuple(sorted(deq.items()))
        # taint: the first violation on a path is the root; later ones on the
        # same path are reported as consequences ("//after:<root>")
        taint = mon.get('taint', '')
        first = []
        raw_report = report

        def report(sig, what):
            if taint:
                raw_report(f'{sig}//after:{taint}', what)
            else:
                if not first:
                    first.append(sig)
                raw_report(sig, what)

        try:
            return self._run_monitors(mon, removed, s, ev, before, after, ns, report)
        finally:
            if not taint and first:
                mon['taint'] = first[0]

    def _run_monitors(self, mon, removed, s, ev, before, after, ns, report):
        self.removed = removed
        if 'C01' in self.props:
            self.mon_c01(ev, removed, report)
        if 'C03' in self.props:
            self.mon_c03(s, ev, ns, report)
        if 'C04' in self.props:
            self.mon_c04(s, ev, ns, report)
        if 'C05' in self.props:
            self.mon_c05(s, ev, before, after, report)
        if 'C11' in self.props:
            self.mon_c11(mon, s, ev, ns, report)
            # the latest triggering event of every node and the run id it carried
            trig = dict(mon.get('trig', ()))
            for e in self.log:
                if e[0] == 'organize':
                    for name in e[1]:
                        trig[name] = e[2]
            if ev[0] == 'timer':
                for tag in after:
                    if set(after[tag][0]) - set(before[tag][0]):
                        trig[tag] = None    # a timer event carries no run id
            mon['trig'] = tuple(sorted(trig.items()))
        if ev[0] == 'rereg':
            mon['rereg'] = mon.get('rereg', 0) + 1
        if ev[0] == 'life':
            mon['life'] = mon.get('life', 0) + 1
        if tuple(ev) == ('tick', 'db-outage') or (ev[0] == 'reply' and str(ev[4]).endswith('!journal-outage')):
            mon['faults'] = mon.get('faults', 0) + 1
        if ev[0] == 'timer':
            mon['ntimer'] = mon.get('ntimer', 0) + 1
        return mon

    # ---- C01
    def mon_c01(self, ev, removed, report):
        released = [(e[1], e[2]) for e in self.log if e[0] == 'put']
        for e in self.log:
            if e[0] == 'batch':
                for tag, do in e[1]:
                    for t in do:
                        if (tag, t) not in released:
                            released.append((tag, t))
        w = self.w
        for tag, t in released:
            kind = self.eng.kind(tag)
            for up in sorted(self.anc[tag]):
                n = w.nodes[up]
                todo, doing = set(n.get('todo')), set(n.get('doing'))
                truth = self.truth_exec(up)
                if kind == 'analysis' or t == '__all__':
                    bad_p, bad_d, bad_t = todo, doing, truth
                else:
                    pick = {t, '__all__'}
                    bad_p, bad_d, bad_t = todo & pick, doing & pick, truth & pick
                if bad_p:
                    report('C01/released-while-upstream-pending',
                           f'{tag}[{t}] released while upstream {up} has '
                           f'{sorted(bad_p)} pending')
                elif bad_d:
                    report('C01/released-while-upstream-executing',
                           f'{tag}[{t}] released while upstream {up} is '
                           f'executing {sorted(bad_d)}')
                elif bad_t:
                    why = set()
                    for x in bad_t:
                        by = removed.get((up, x), 'never-in-doing')
                        if by == 'complete' and (up, x) in self.dup:
                            # the reply of one copy cleared `doing` while a
                            # second copy (released because of <cause>) still runs
                            by = f'complete-of-a-duplicate-released-after-{self.dup[(up, x)]}'
                        why.add(by)
                    why = sorted(why)
                    report('C01/upstream-in-flight-but-absent-from-doing/'
                           f'last-removed-by={"+".join(why)}',
                           f'{tag}[{t}] released while upstream {up}{sorted(bad_t)} '
                           'is really in flight (task message sent, no reply yet) '
                           'but no longer in its node\'s doing set')

    # ---- C03
    def mon_c03(self, s, ev, ns, report):
        w = self.w
        # (i) at most one execution of (alg,target) in flight
        seen = {}
        for j, t, r, _u in w.inflight:
            seen[(j, t)] = seen.get((j, t), 0) + 1
        for m in farm._cluster:
            k = (m.jobid, m.target or '__all__')
            seen[k] = seen.get(k, 0) + 1
        for (j, t), n in seen.items():
            if n > 1:
                why = dict(s['mon'].get('removed', ())).get((j, t))
                cause = f'first-copy-left-doing-by={why}' if why else 'node-knows-it-is-executing'
                report(f'C03/two-executions-in-flight/{cause}',
                       f'{n} executions of {j}[{t}] released and unanswered at once')
        # (ii) handed to at most one worker: each put -> exactly one of
        # cluster / task message
        puts = [e for e in self.log if e[0] == 'put']
        tasks = [o for o in w.obs if o[0] == 'task']
        if ev[0] == 'tick':
            was = len(s['cluster'])
            now = len(farm._cluster)
            if was + len(puts) != now + len(tasks):
                report('C03/conservation',
                       f'{was} queued + {len(puts)} released != {now} queued + '
                       f'{len(tasks)} handed out')
        # (iii) a reply is applied exactly once
        if ev[0] == 'reply':
            _k, j, t, r, o = ev[:5]
            status = {'success': 'success', 'success-none-new': 'success',
                      'failure': 'failure', 'invalid': 'invalid'}[o]
            apps = [c for c in w.chron if (c['task'], c['target'], c['runid'],
                                           c['status']) == (j, t, r, status)]
            lost = [e for e in self.log if e[0] == 'log.error']
            if lost:
                why = dict(s['mon'].get('removed', ())).get((j, t), 'still-in-doing')
                dq = dict(s['mon'].get('dequeued', ())).get(j, 'never-queued')
                report(f'C03/reply-dropped/unit-left-doing-by={why}/dequeued-by={dq}',
                       f'reply for {j}[{t}] run {r}: {lost[0][1]}')
            elif len(apps) != 1:
                report('C03/reply-recorded-%d-times' % len(apps),
                       f'reply for {j}[{t}] run {r} ({status}) appended '
                       f'{len(apps)} times to the history')
            ups = [e for e in self.log if e[0] == 'update' and e[1] == j]
            if status == 'success' and not lost and len(ups) != 1:
                report('C03/report-propagated-%d-times' % len(ups),
                       f'new-value report of {j}[{t}] propagated {len(ups)} times')
        # (iv) crew view == units in flight
        names = sorted(f'{j}[{t}]' for j, t, _r, _u in w.inflight)
        if names != w.busy_names():
            report('C03/crew-view', f'in flight {names} but crew() reports '
                   f'{w.busy_names()}')
        for e in self.log:
            if e[0] == 'log.exception' and tuple(ev) != ('tick', 'db-outage'):
                report('C03/dispatch-exception', f'{e[1]}: {e[2]}')
        # (v) what a dispatch releases (todo -> doing) exists somewhere: still in
        # the farm's batch, queued for a worker, or written to one
        if ev[0] == 'tick':
            accounted = {(e[1], e[2]) for e in puts}
            for j in farm._jobs:
                for t in j.get('do'):
                    accounted.add((j.tag, t))
                    accounted.add((j.tag, '__all__'))
            before_doing = {t: set(d) for t, _todo, d, _do, _st, _rid, _ev in s['nodes']}
            for tag, n in w.nodes.items():
                for t in set(n.get('doing')) - before_doing.get(tag, set()):
                    if (tag, t) not in accounted and (tag, '__all__') not in accounted:
                        report('C03/released-unit-neither-queued-nor-handed',
                               f'{tag}[{t}] moved to doing by this dispatch but no task message was built and the '
                               f'job is not in the farm batch any more')
        for o in w.obs:
            if o[0] == 'handler-exception':
                report(f'C03/farm-handler-raised/{ev[0]}/{o[1]}', f'event {ev}: Hand.dataReceived raised {o[1]}: {o[2]}')
            if o[0] == 'dispatch-raised':
                report(f'C03/dispatch-raises/{o[1]}', f'farm.dispatch raised {o[1]}: {o[2]}')

    # ---- C04
    def quiescent_truth(self):
        w = self.w
        if w.inflight or farm._cluster or farm._jobs:
            return False
        return not any(n.get('todo') or n.get('do') for n in w.nodes.values())

    def runnable(self):
        '''pending units whose upstream is idle for their target (reference)'''
        w = self.w
        out = []
        for tag, n in w.nodes.items():
            for t in n.get('todo'):
                own = set(n.get('doing')) | self.truth_exec(tag)
                if t in own or '__all__' in own or (t == '__all__' and own):
                    continue
                ok = True
                for up in self.anc[tag]:
                    b = self.busy_of(up)
                    if t == '__all__' or self.eng.kind(tag) == 'analysis':
                        if b:
                            ok = False
                    elif t in b or '__all__' in b:
                        ok = False
                if ok:
                    out.append((tag, t))
        return out

    def mon_c04(self, s, ev, ns, report):
        w = self.w
        if self.quiescent_truth():
            views = {
                'que': [n.tag for n in schedule.que],
                'todo': schedule.view_todo(),
                'doing': schedule.view_doing(),
                'busy': farm.crew()['busy'],
            }
            if any(views.values()):
                bad = sorted(k for k, v in views.items() if v)
                report('C04/idle-but-not-reported-idle/' + '+'.join(bad),
                       f'nothing pending or in flight but {views}')
        if tuple(ev) == ('tick',) and w.fsm.active and farm._jobs:
            report('C04/released-batch-not-dispatched',
                   f'after a dispatch the farm still holds released jobs it built no task for: '
                   f'{[(j.tag, sorted(j.get("do"))) for j in farm._jobs]}')
        if ev[0] == 'tick' and w.fsm.active:
            left = self.runnable()
            if left:
                kinds = sorted({self.eng.kind(t) for t, _x in left})
                report('C04/runnable-not-released/' + '+'.join(kinds),
                       f'after dispatch still pending with idle upstream: {left}')

    # ---- C05
    def mon_c05(self, s, ev, before, after, report):
        if ev[0] != 'reply' or ev[4] in ('success', 'success-none-new'):
            return
        w = self.w
        _k, j, t, r, o = ev[:5]
        if any(e[0] == 'log.error' for e in self.log):
            return  # reply dropped: C03's business
        deps = self.desc[j]
        for d in sorted(deps):
            if t in after[d][0]:
                report('C05/target-not-withdrawn',
                       f'{o} of {j}[{t}]: dependent {d} still has {t} pending')
        for tag in after:
            for idx, nm in ((0, 'todo'), (1, 'doing'), (2, 'do')):
                b, a = set(before[tag][idx]), set(after[tag][idx])
                grew = a - b
                if grew:
                    report(f'C05/frame/{nm}-grew',
                           f'{o} of {j}[{t}] added {sorted(grew)} to {nm} of {tag}')
                lost = b - a
                allowed = set()
                if tag == j or tag in deps:
                    allowed = {t}
                if lost - allowed:
                    where = 'dependent' if tag in deps else (
                        'self' if tag == j else 'unrelated')
                    report(f'C05/frame/{nm}-shrank/{where}',
                           f'{o} of {j}[{t}] removed {sorted(lost - allowed)} '
                           f'from {nm} of {tag}')
        # pending work stays schedulable: a node that was in the work queue and
        # still has something pending or executing is still in the work queue
        qnow = {n.tag for n in schedule.que}
        for tag in s['que']:
            if tag not in qnow and (after[tag][0] or after[tag][1]):
                where = 'dependent' if tag in deps else ('self' if tag == j else 'unrelated')
                report(f'C05/pending-work-dequeued/{where}',
                       f'{o} of {j}[{t}]: {tag} left the work queue with todo={list(after[tag][0])} '
                       f'doing={list(after[tag][1])}')
        if any(e[0] in ('update', 'organize') for e in self.log):
            report('C05/dependent-triggered',
                   f'{o} of {j}[{t}] reached schedule.update/organize')
        apps = [c for c in w.chron if (c['task'], c['target'], c['runid'])
                == (j, t, r)]
        if len(apps) != 1 or apps[0]['status'] != o:
            report('C05/history',
                   f'{o} of {j}[{t}] run {r} recorded as '
                   f'{[(c["status"]) for c in apps]}')

    # ---- C11
    def mon_c11(self, mon, s, ev, ns, report):
        import dawgie.context
        w = self.w
        rev_now = dawgie.context.git_rev
        active_before = s['active'] if ev[0] != 'life' else None
        puts = {}
        for e in self.log:
            if e[0] == 'put':
                puts.setdefault((e[1], e[2]), []).append(e[3])
        for o in w.obs:
            if o[0] == 'task':
                _t, cid, jobid, tgt, runid, factory, crev, clost, active, ntasks = o
                if crev != rev_now:
                    report('C11/task-to-stale-revision', f'{jobid}[{tgt}] sent to a worker registered with {crev}, pipeline runs {rev_now}')
                if clost:
                    report('C11/task-to-dropped-worker', f'{jobid}[{tgt}] written to a connection that is gone')
                if ntasks > 1:
                    report('C11/second-task-to-one-worker', f'{jobid}[{tgt}] is task number {ntasks} of one registration')
                if not active:
                    report('C11/task-while-inactive', f'{jobid}[{tgt}] sent while the pipeline is not active')
                kind = self.eng.kind(jobid)
                fac = (f'{self.eng.pkg}.{jobid.split(".")[0]}', kind)
                if tuple(factory) != fac:
                    report('C11/message-factory', f'{jobid}[{tgt}] carries factory {factory}, expected {fac}')
                if kind == 'regress' and runid != 0:
                    report('C11/regression-run-id', f'{jobid}[{tgt}] is a regression but carries run id {runid}')
                if kind == 'analysis' and tgt != '__all__':
                    report('C11/message-target', f'analysis {jobid} sent with target {tgt}')
        # run ids: reuse the id the triggering event carried, else draw db.next()
        if ev[0] == 'tick':
            want_next = 0
            for e in self.log:
                if e[0] == 'batch':
                    for tag, do in e[1]:
                        rid_before = dict((t, r) for t, _a, _b, _c, _st, r, _e in s['nodes']).get(tag)
                        carried = rid_before
                        trig = dict(s['mon'].get('trig', ()))
                        if tag in trig:
                            carried = trig[tag]     # what the latest triggering event carried
                        kind = self.eng.kind(tag)
                        if carried is None:
                            want_next += 1
                        for t in do:
                            got = puts.get((tag, t if kind != 'analysis' else '__all__'), [None])[0]
                            fresh = w.store_next + (s.get('nexts', 0) + want_next - 1 if w.monotone_next else 0)
                            exp = 0 if kind == 'regress' else (carried if carried is not None else fresh)
                            if got != exp:
                                report('C11/run-id/' + ('reused-instead-of-fresh' if carried is None else 'not-the-carried-id'),
                                       f'{tag}[{t}] released with run id {got}, expected {exp} '
                                       f'(triggering event carried {carried})')
            if w.next_calls - mon.get('next_calls', 0) != want_next:
                report('C11/run-id/draws', f'db.next() called {w.next_calls - mon.get("next_calls", 0)} times, '
                                           f'{want_next} released algorithms had no run id')
        mon['next_calls'] = 0
        w.next_calls = 0
        # unplaced tasks stay queued (the farm here has no cloud agency, so the
        # cluster queue is the only place a task message may wait)
        if ev[0] == 'tick':
            nput = sum(len(v) for v in puts.values())
            ntask = len([o for o in w.obs if o[0] == 'task'])
            if len(s['cluster']) + nput != len(farm._cluster) + ntask:
                report('C11/unplaced-task-not-queued',
                       f'{len(s["cluster"])} queued + {nput} released != {len(farm._cluster)} queued + {ntask} sent '
                       f'(cloud queue holds {len(farm._cloud)} without a cloud agency)')
        if ev[0] == 'tick' and any(o[0] == 'archived' for o in w.obs):
            # this dispatch took the pipeline out of running (archive): the workers
            # that were waiting are told to leave, none is kept or told to wait
            waits = [o for o in w.obs if o[0] == 'wait']
            if waits or farm._workers:
                report('C11/workers-kept-while-the-pipeline-leaves-running',
                       f'the dispatch started the archive but {len(farm._workers)} workers stay registered and '
                       f'{len(waits)} were told to wait')
        for o in w.obs:
            if o[0] == 'dispatch-raised':
                report(f'C11/dispatch-raises/{o[1]}', f'farm.dispatch raised {o[1]}: {o[2]}')
        # nothing is written at all while inactive except abort responses
        if not w.fsm.active and ev[0] in ('tick', 'poll', 'reg'):
            bad = [o for o in w.obs if o[0] in ('task', 'wait', 'proceed')]
            if bad and not (ev[0] == 'reg'):
                report('C11/traffic-while-inactive/' + bad[0][0], f'event {ev} while inactive wrote {bad[0][:3]}')
        if ev[0] == 'life' and ev[1] == 'reload':
            waiting = [o[1] for o in w.obs if o[0] == 'reload-workers']
            told = len([o for o in w.obs if o[0] == 'abort'])
            if waiting and told != waiting[0]:
                report('C11/waiting-worker-not-told-to-leave',
                       f'{waiting[0]} workers were waiting when the pipeline went down, {told} were told to leave')
            kept = [o for o in w.obs if o[0] in ('wait', 'task')]
            if kept or farm._workers:
                report('C11/workers-survive-reload', f'after reload: {len(farm._workers)} workers still registered, wrote {kept[:2]}')
        if ev[0] == 'poll':
            verdict = [o[0] for o in w.obs if o[0] in ('abort', 'proceed')]
            should = 'proceed' if (ev[1] == rev_now and w.fsm.active) else 'abort'
            if verdict[:1] != [should]:
                report(f'C11/status-poll/{should}-expected', f'poll with revision {ev[1]} (pipeline {rev_now}, '
                       f'active={w.fsm.active}) answered {verdict}')
        if ev[0] == 'reg' and len(ev) > 1:
            registered = len(ns['workers']) - len(s['workers'])
            if ev[1] != rev_now and registered:
                report('C11/stale-worker-registered', f'worker with revision {ev[1]} accepted, pipeline runs {rev_now}')
            if ev[1] == rev_now and not registered:
                report('C11/current-worker-refused', f'worker with revision {ev[1]} refused')
