'''C06 - stored values come back intact, only to their own author/version/target.

Every subset of a 9-entry universe (runs 1..5, targets A/B, algorithms a/b,
algorithm / state-vector / value version variants, one entry that stores only
one of the two values, one entry overwritten in place) is written through the
real Interface.update over the loopback wire.  On every store - and again after
each single mutation (close/reopen from disk, removal of each stored value,
overwrite of each entry, adding a target) - EVERY load request in
runs 1..6 x targets {A,B,C} x algorithms {a,b} x declared-version
configurations {base, alg bumped, sv bumped, value bumped} is issued through
the real Dataset.load() and each state-vector slot is compared with a reference
dictionary: the entry of the requested run if present, else the highest run of
the same identity and versions, else the slot must still hold the very same
sentinel object.
'''

from . import common

LEVEL = 'exploration'

V1, VA, VS, VV = (1, 0, 0), (1, 1, 0), (2, 0, 0), (1, 0, 1)
#  run tgt alg  algver svver valver keys        tag
UNIVERSE = [
    (1, 'A', 'a', V1, V1, V1, ('x', 'y'), 'e1'),
    (2, 'A', 'a', V1, V1, V1, ('x',), 'e2'),
    (3, 'A', 'a', VA, V1, V1, ('x', 'y'), 'e3'),
    (2, 'B', 'a', V1, V1, V1, ('x', 'y'), 'e4'),
    (2, 'A', 'b', V1, V1, V1, ('x', 'y'), 'e5'),
    (1, 'A', 'a', V1, VS, V1, ('x', 'y'), 'e6'),
    (3, 'A', 'a', V1, V1, VV, ('x', 'y'), 'e7'),
    (5, 'A', 'a', V1, V1, V1, ('x', 'y'), 'e8'),
    (1, 'A', 'a', V1, V1, V1, ('x', 'y'), 'e9-overwrites-e1'),
]
# always present in addition (not part of the subset enumeration):
#  - an author whose name extends another author's name (a / ab)
#  - an entry whose bytes are identical to those of e1 and of e4 (same content
#    under different keys: the blob store keeps one copy, the catalogue needs both)
EXTRA = [
    (2, 'A', 'ab', V1, V1, V1, ('x', 'y'), 'x1-prefix-named-author'),
    (4, 'B', 'b', V1, V1, V1, ('x', 'y'), 'x2-same-bytes-as-e1'),
    # the factories' default run id is -1: a legal run id like any other
    (-1, 'C', 'a', V1, V1, V1, ('x', 'y'), 'x3-default-run-id-minus-one'),
    (1, 'C', 'a', V1, V1, V1, ('x', 'y'), 'x4-run-1-of-the-same-identity'),
]
SAME_BYTES = {'x2-same-bytes-as-e1': 'e1', 'e4': 'e1'}
CONFIGS = {'base': (V1, V1, V1), 'alg': (VA, V1, V1), 'sv': (V1, VS, V1), 'val': (V1, V1, VV)}


def content_of(tag, k):
    tag = SAME_BYTES.get(tag, tag)      # several entries share their bytes
    return {'who': tag, 'key': k, 'nested': [1, (2, 3), {'z': tag}]}


def store(entry, tagsuffix=''):
    import dawgie.db
    from dawgie.db.shelve.state import DBI
    from . import mini

    run, tgt, alg, av, sv, vv, keys, tag = entry
    vals = {k: mini.Val(content_of(tag + tagsuffix, k), ver=__import__('dawgie').VERSION(*vv)) for k in keys}
    a = mini.Alg(alg, ver=av, svs=[mini.SV('s', ver=sv, values=vals)])
    b = mini.Bot('t', run, tgt, [a])
    DBI()._DBI__reopened = True
    try:
        dawgie.db.connect(a, b, tgt).update()
    finally:
        DBI()._DBI__reopened = False
    return b.new_values()


def ref_put(ref, entry, tagsuffix=''):
    run, tgt, alg, av, sv, vv, keys, tag = entry
    for k in keys:
        ref[(run, tgt, 't', alg, av, 's', sv, k, vv)] = content_of(tag + tagsuffix, k)


def ref_load(ref, run, tgt, alg, cfg, k):
    av, sv, vv = CONFIGS[cfg]
    same = {r: c for (r, t, task, a, v1, s, v2, kk, v3), c in ref.items()
            if (t, task, a, v1, s, v2, kk, v3) == (tgt, 't', alg, av, 's', sv, k, vv)}
    if not same:
        return None
    if run in same:
        return same[run]
    return same[max(same)]


def all_loads(ctx, ref, rep, phase, quick_subset=False, targets=('A', 'B', 'C')):
    import dawgie
    import dawgie.db
    from dawgie.db.shelve.state import DBI
    from . import mini

    outcomes = 0
    runs = (-1, 1, 2, 3, 4, 6) if quick_subset else (-1, 1, 2, 3, 4, 5, 6)
    for run in runs:
        for tgt in targets:
            for alg in ('a', 'b', 'ab'):
                for cfg, (av, sv, vv) in CONFIGS.items():
                    if quick_subset and cfg != 'base' and tgt != 'A':
                        continue
                    if alg == 'ab' and cfg != 'base':
                        continue
                    sx = mini.Val('SENTINEL', ver=dawgie.VERSION(*vv))
                    sy = mini.Val('SENTINEL', ver=dawgie.VERSION(*vv))
                    svo = mini.SV('s', ver=sv, values={'x': sx, 'y': sy})
                    a = mini.Alg(alg, ver=av, svs=[svo])
                    b = mini.Bot('t', run, tgt, [a])
                    saved = mini.VALUE_VERSION[0]
                    mini.VALUE_VERSION[0] = dawgie.VERSION(*vv)
                    DBI()._DBI__reopened = True
                    ctx.count('loads')
                    try:
                        dawgie.db.connect(a, b, tgt).load()
                    except Exception as e:  # noqa
                        ctx.violation(f'C06/load-raises/{type(e).__name__}/{phase}',
                                      f'load(run={run},{tgt},{alg},{cfg}) raised {e!r}',
                                      dict(rep, load=[run, tgt, alg, cfg]))
                        continue
                    finally:
                        DBI()._DBI__reopened = False
                        mini.VALUE_VERSION[0] = saved
                    for k, sent in (('x', sx), ('y', sy)):
                        want = ref_load(ref, run, tgt, alg, cfg, k)
                        got = svo[k]
                        if want is None:
                            if got is not sent:
                                ctx.violation(
                                    f'C06/leak/{cfg}/{phase}',
                                    f'load(run={run},{tgt},{alg},{cfg}).{k}: nothing matches but got '
                                    f'{getattr(got, "content", got)!r}', dict(rep, load=[run, tgt, alg, cfg]))
                            continue
                        outcomes += 1
                        if got is sent:
                            ctx.violation(
                                f'C06/not-loaded/{cfg}/{phase}',
                                f'load(run={run},{tgt},{alg},{cfg}).{k}: left untouched, expected {want["who"]}',
                                dict(rep, load=[run, tgt, alg, cfg]))
                        elif getattr(got, 'content', None) != want:
                            who = getattr(got, 'content', {})
                            who = who.get('who') if isinstance(who, dict) else who
                            ctx.violation(
                                f'C06/wrong-entry/{cfg}/{phase}',
                                f'load(run={run},{tgt},{alg},{cfg}).{k}: got {who!r}, '
                                f'expected {want["who"]}', dict(rep, load=[run, tgt, alg, cfg]))
                        # what a load hands out is the caller's: changing it in
                        # place must not change what any later load returns
                        if got is not sent and hasattr(got, 'content'):
                            got.content = {'who': 'MODIFIED-IN-PLACE-BY-AN-EARLIER-CALLER'}
    return outcomes


def referenced_loads(ctx, ref, rep, phase):
    '''Dataset.load(ALG_REF): how Task.do loads the inputs an algorithm declares.
    The loading algorithm lives in another task ('u') that has an algorithm of
    the same name; what is loaded is the referenced task's ('t') entry'''
    import dawgie
    import dawgie.context
    import dawgie.db
    from dawgie.db.shelve.state import DBI
    from . import mini

    for run in (1, 2, 3, 6):
        for tgt in ('A', 'B'):
            for alg in ('a', 'b'):
                sx, sy = mini.Val('SENTINEL'), mini.Val('SENTINEL')
                svo = mini.SV('s', values={'x': sx, 'y': sy})
                target_alg = mini.Alg(alg, svs=[svo])

                def task(prefix, ps_hint=0, runid=-1, target='__none__', _a=target_alg):
                    return mini.Bot(prefix, runid, target, [_a])

                task.__module__ = dawgie.context.ae_base_package + '.t'
                task.__name__ = 'task'
                loader_alg = mini.Alg(alg, svs=[mini.SV('s', values={'x': mini.Val('LOADER'), 'y': mini.Val('LOADER')})])
                loader_bot = mini.Bot('u', run, tgt, [loader_alg])
                DBI()._DBI__reopened = True
                ctx.count('loads')
                try:
                    dawgie.db.connect(loader_alg, loader_bot, tgt).load(dawgie.ALG_REF(task, target_alg))
                except Exception as e:  # noqa
                    ctx.violation(f'C06/referenced-load-raises/{type(e).__name__}/{phase}',
                                  f'load(ALG_REF t.{alg}) from u.{alg} run={run} {tgt} raised {e!r}',
                                  dict(rep, load=[run, tgt, alg, 'referenced']))
                    continue
                finally:
                    DBI()._DBI__reopened = False
                for k, sent in (('x', sx), ('y', sy)):
                    want = ref_load(ref, run, tgt, alg, 'base', k)
                    got = svo[k]
                    if want is None:
                        if got is not sent:
                            ctx.violation(f'C06/leak/referenced/{phase}',
                                          f'load(ALG_REF t.{alg}).{k} run={run} {tgt}: nothing matches but got '
                                          f'{getattr(got, "content", got)!r}', dict(rep, load=[run, tgt, alg, 'referenced']))
                    elif got is sent:
                        ctx.violation(f'C06/not-loaded/referenced/{phase}',
                                      f'load(ALG_REF t.{alg}).{k} from task u run={run} {tgt}: left untouched, expected '
                                      f'{want["who"]}', dict(rep, load=[run, tgt, alg, 'referenced']))
                    elif getattr(got, 'content', None) != want:
                        ctx.violation(f'C06/wrong-entry/referenced/{phase}',
                                      f'load(ALG_REF t.{alg}).{k} run={run} {tgt}: got {getattr(got, "content", got)!r}, '
                                      f'expected {want["who"]}', dict(rep, load=[run, tgt, alg, 'referenced']))


def work(args):
    tier, seed, shard, nshards = args
    import dawgie.db
    from . import world

    ctx = common.Ctx('C06', tier, seed, LEVEL)
    quick = tier == 'quick'
    nontrivial = 0
    for mask in range(1 << len(UNIVERSE)):
        if mask % nshards != shard:
            continue
        content = [e for i, e in enumerate(UNIVERSE) if mask >> i & 1] + EXTRA
        rep = {'content': [e[-1] for e in content]}
        w = world.StoreWorld()
        try:
            ref = {}
            for e in content:
                store(e)
                ref_put(ref, e)
            ctx.count('stores')
            nontrivial += all_loads(ctx, ref, rep, 'fresh', quick and mask % 8 != 0)
            referenced_loads(ctx, ref, rep, 'fresh')
            # single mutations, each followed by every load again
            if quick and mask % 4 != 3:
                continue
            w.reopen_from_disk()
            all_loads(ctx, ref, dict(rep, mutation='reopen'), 'reopen', True)
            if quick and mask % 16 != 3:
                continue
            dawgie.db.add('D')        # a target nothing was ever stored for
            all_loads(ctx, ref, dict(rep, mutation='add D'), 'add-target', True, targets=('A', 'B', 'C', 'D'))
            for e in content[:3]:
                store(e, '*')
                ref_put(ref, e, '*')
                all_loads(ctx, ref, dict(rep, mutation=f'overwrite {e[-1]}'), 'overwrite', True)
            for e in content[:2]:
                run, tgt, alg = e[0], e[1], e[2]
                dawgie.db.remove(run, tgt, 't', alg, 's', 'x')
                for key in [k for k in ref if (k[0], k[1], k[3], k[7]) == (run, tgt, alg, 'x')]:
                    del ref[key]
                all_loads(ctx, ref, dict(rep, mutation=f'remove {e[-1]}.x'), 'remove', True)
        finally:
            w.close()
        if mask % 61 == 0:
            ctx.sample(rep)
    out = ctx.export()
    out['nontrivial'] = nontrivial
    return out


def run(ctx):
    from . import world
    world.validate_digest_seam(common.scratch_root())
    nsh = 64
    nontrivial = 0
    for r in common.pmap(work, [(ctx.tier, ctx.seed, s, nsh) for s in range(nsh)]):
        ctx.merge(r)
        nontrivial += r['nontrivial']
    c = ctx.counters
    ctx.assumptions += ['shelve back end only (db/post needs a PostgreSQL server)',
                        'contents are nested picklable structures compared by equality']
    cov = {
        'evaluations': c.get('loads', 0),
        'distinct_nontrivial': c.get('stores', 0),
        'rule': 'every subset (512) of the 9-entry universe; on each store and after each single mutation '
                '(reopen, add target, overwrite, remove) every load in runs x targets x algorithms x '
                'version configurations (quick tier: the full load grid on every 8th store, reopen on every 4th, the mutation '
                'chain on every 16th, a reduced grid elsewhere); distinct_nontrivial = distinct store contents',
        'slots_with_a_matching_entry': nontrivial,
    }
    return common.finish(ctx, cov, exhaustive=True)


def replay(data):
    from . import world
    r = data['replay']
    w = world.StoreWorld()
    ctx = common.Ctx('C06', 'quick', 0, LEVEL)
    try:
        ref = {}
        for e in UNIVERSE + EXTRA:
            if e[-1] in r['content']:
                store(e)
                ref_put(ref, e)
        all_loads(ctx, ref, r, 'fresh')
        for sig, v in ctx.violations.items():
            print('!!', sig, v['what'])
        print('VIOLATES' if ctx.violations else 'ok (mutation phases are re-run by bin/check C06)')
        return 1 if ctx.violations else 0
    finally:
        w.close()
