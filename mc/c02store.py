'''C02 store tier: real execution of every released unit (see c02.py)'''

import importlib
import itertools

from . import common, aegen, explore

A = aegen.alg


def sv2():
    return [aegen.sv('s', ('x', 'y'))]


def engines():
    E = {}
    E['store-fanout'] = [A('ta', 'a', svs=sv2()),
                         A('tb', 'b', inputs=[('ta', 'a', 's', 'x')], svs=sv2()),
                         A('tc', 'c', inputs=[('ta', 'a', 's', 'y')], svs=sv2())]
    E['store-chain'] = [A('ta', 'a', svs=sv2()),
                        A('tb', 'b', inputs=[('ta', 'a', 's', 'x')], svs=sv2()),
                        A('tc', 'c', inputs=[('tb', 'b', 's', 'x')], svs=sv2())]
    E['store-join'] = [A('ta', 'a', svs=sv2()), A('tb', 'b', svs=sv2()),
                       A('tc', 'c', inputs=[('ta', 'a', 's', 'x'), ('tb', 'b', None, None)], svs=sv2())]
    return {k: {'style': 'legacy', 'algs': v} for k, v in E.items()}


MASKS = {'x': ('x',), 'y': ('y',), 'xy': ('x', 'y'), 'none': ()}


class Driver:
    def __init__(self, name, desc, targets, reruns, split=False, two_updates=False):
        from . import pipeworld, world, aert
        import dawgie.pl.worker

        self.name, self.desc, self.targets, self.reruns = name, desc, targets, reruns
        # split: a unit's work (store writes) and the delivery of its reply are
        # two events; two_updates: root algorithms call ds.update() after every
        # value they author (Dataset.update: "intermediate data")
        self.split, self.two_updates = split, two_updates
        self.pending = {}
        world.install_store_seams()
        self.world = world
        self.store = world.StoreWorld()
        self.w = pipeworld.PipeWorld(desc, targets, mode='ample', real_db=True)
        self.eng = self.w.eng
        self.roots = [t for t in self.eng.tags() if not self.eng.alg_of(t)['in']]
        aert.CONTROL[self.eng.pkg] = {'run': self.run_hook}

        class Ctx(dawgie.pl.worker.Context):
            def abort(self):      # the farm would answer "proceed"
                return False

        self.Ctx = Ctx

    # ---- algorithm bodies (pure functions of inputs and root epochs)
    def run_hook(self, task, alg, kind, handle):
        import dawgie
        ds = handle
        tag = f'{task}.{alg.name()}'
        a = self.eng.alg_of(tag)
        tn = ds._tn()
        if not a['in']:
            for sv in alg.state_vectors():
                for vn in list(sv.keys()):
                    sv[vn] = type(sv[vn])(('root', tag, sv.name(), vn, tn, self.epochs[(tag, tn, vn)]))
                    if self.two_updates:
                        ds.update()
            if self.two_updates:
                return
        else:
            got = []
            for ref in alg.previous():
                for vref in dawgie.util.as_vref([ref]):
                    val = vref.impl.sv_as_dict()[vref.item.name()][vref.feat]
                    got.append(getattr(val, 'content', None))
            for sv in alg.state_vectors():
                for vn in list(sv.keys()):
                    if vn == 'x':
                        sv[vn] = type(sv[vn])(('v', tag, sv.name(), vn, tuple(got)))
                    else:
                        sv[vn] = type(sv[vn])(('const', tag, sv.name(), vn))
        ds.update()

    def reference(self):
        '''from-scratch evaluation in dependency order on the final epochs'''
        out = {}
        order = []
        todo = list(self.eng.tags())
        while todo:
            for t in list(todo):
                if all(p in order for p in self.eng.parents(self.eng.alg_of(t))):
                    order.append(t)
                    todo.remove(t)
        for tn in self.targets:
            for tag in order:
                a = self.eng.alg_of(tag)
                if not a['in']:
                    for vn in ('x', 'y'):
                        out[(tn, tag, vn)] = ('root', tag, 's', vn, tn, self.epochs[(tag, tn, vn)])
                else:
                    got = tuple(out[(tn, '.'.join(v.split('.')[:2]), v.split('.')[3])] for v in self.eng.input_values(a))
                    out[(tn, tag, 'x')] = ('v', tag, 's', 'x', got)
                    out[(tn, tag, 'y')] = ('const', tag, 's', 'y')
        return out

    # ---- life
    def reset(self):
        import dawgie.db
        if self.store is not None:
            self.store.close()
        self.store = self.world.StoreWorld()
        self.w.boot()
        self.store.as_foreman()
        for t in self.targets:
            dawgie.db.add(t)
        self.epochs = {(r, t, v): 0 for r in self.roots for t in self.targets for v in ('x', 'y')}
        self.nrerun = 0
        self.failed = []
        self.pending = {}
        # initial full run, deterministic order
        for r in self.roots:
            self.w.ev_req(r, tuple(self.targets))
        for _ in range(200):
            self.w.ev_tick()
            if not self.w.inflight:
                if not any(n.get('todo') for n in self.w.nodes.values()):
                    break
                continue
            while self.w.inflight:
                self.execute(0)
        else:
            raise common.HarnessBroken('initial run does not quiesce')

    def close(self):
        if self.store is not None:
            self.store.close()
            self.store = None

    def execute(self, index, deliver=True):
        '''really run the unit the worker holds, deliver its reply'''
        import dawgie
        import dawgie.context
        from dawgie.db.shelve.state import DBI
        w = self.w
        jobid, tgt, runid, uid = w.inflight[index]
        m = w.tasks_msgs[uid]
        factory = getattr(importlib.import_module(m.factory[0]), m.factory[1])
        ctxt = self.Ctx(None, dawgie.context.git_rev)
        DBI()._DBI__reopened = True
        timing = dict(m.timing or {})
        nv, outcome = None, 'success'
        try:
            nv = [(n, isnew) for n, isnew in ctxt.run(factory, 0, m.jobid, m.runid, m.target, timing)]
        except Exception as e:  # noqa
            outcome = 'failure'
            self.failed.append((jobid, tgt, repr(e)))
        finally:
            DBI()._DBI__reopened = False
        if deliver:
            w.ev_reply(index, outcome, None, poll=False, raw_vals=nv)
        else:
            self.pending[(jobid, tgt, runid)] = (outcome, nv)

    def deliver(self, key):
        w = self.w
        outcome, nv = self.pending.pop(key)
        idx = [i for i, u in enumerate(w.inflight) if tuple(u[:3]) == key]
        w.ev_reply(idx[0], outcome, None, poll=False, raw_vals=nv)

    def enabled(self):
        evs = []
        w = self.w
        if self.nrerun < self.reruns and not w.inflight and not any(n.get('todo') for n in w.nodes.values()):
            # a root re-run arrives at a quiescent pipeline or ...
            pass
        if self.nrerun < self.reruns:
            for r in self.roots:
                for t in self.targets[:1]:
                    for mk in MASKS:
                        evs.append(('rerun', r, t, mk))
        if any(n.get('todo') for n in w.nodes.values()):
            evs.append(('tick',))
        seen = set()
        for j, t, r, _u in w.inflight:
            if (j, t, r) not in seen:
                seen.add((j, t, r))
                if not self.split:
                    evs.append(('exec', j, t, r))
                elif (j, t, r) in self.pending:
                    evs.append(('reply', j, t, r))
                else:
                    evs.append(('work', j, t, r))
        return evs

    def apply(self, ev):
        w = self.w
        if ev[0] == 'rerun':
            _k, r, t, mk = ev
            self.nrerun += 1
            for v in MASKS[mk]:
                self.epochs[(r, t, v)] += 1
            w.ev_req(r, (t,))
        elif ev[0] == 'tick':
            w.ev_tick()
        elif ev[0] == 'exec':
            _k, j, t, r = ev
            idx = [i for i, u in enumerate(w.inflight) if tuple(u[:3]) == (j, t, r)]
            self.execute(idx[0])
        elif ev[0] == 'work':
            _k, j, t, r = ev
            idx = [i for i, u in enumerate(w.inflight) if tuple(u[:3]) == (j, t, r)]
            self.execute(idx[0], deliver=False)
        elif ev[0] == 'reply':
            self.deliver(tuple(ev[1:]))

    def stored(self):
        '''what a fresh load returns for every (target, algorithm, value)'''
        import dawgie
        import dawgie.db
        import dawgie.util
        from dawgie.db.shelve.state import DBI
        out = {}
        DBI()._DBI__reopened = True
        try:
            for tn in self.targets:
                for a in self.eng.algs:
                    tag = self.eng.tag(a)
                    mod = importlib.import_module(f'{self.eng.pkg}.{a["t"]}')
                    fac = getattr(mod, 'task')
                    bot = fac(dawgie.util.task_name(fac), 0, 999999, tn)
                    alg = [x for x in bot.routines() if x.name() == a['n']][0]
                    dawgie.db.connect(alg, bot, tn).load()
                    for vn in ('x', 'y'):
                        out[(tn, tag, vn)] = getattr(alg.sv_as_dict()['s'][vn], 'content', None)
        finally:
            DBI()._DBI__reopened = False
        return out

    def quiescent(self):
        w = self.w
        import dawgie.pl.farm as farm
        return not (w.inflight or farm._cluster or farm._jobs or any(
            n.get('todo') or n.get('doing') for n in w.nodes.values()))

    def canon(self):
        from .pipeworld import PipeWorld
        s = self.w.capture()
        # the run id a pending node will be released under decides which stored
        # inputs it loads: part of the state while something is pending
        nodes = tuple((t, tuple(sorted(todo)), doing, st, rid if todo else None)
                      for t, todo, doing, _do, st, rid, _ev in s['nodes'])
        from dawgie.db.shelve.state import DBI
        prime = dict(DBI().tables.prime)
        metric = {i for n, i in DBI().tables.state.items() if '__metric__' in n}
        # resource metrics carry wall-clock durations: not part of the state
        vals = sorted((k, v) for k, v in prime.items() if eval(k)[4] not in metric)
        return (nodes, s['que'], tuple(sorted((j, t, r) for j, t, r, _u in s['inflight'])),
                tuple(sorted(self.epochs.items())), self.nrerun, common.digest(vals),
                tuple(sorted((k, o, tuple(sorted((n, f) for n, f in (nv or ()) if '__metric__' not in n)))
                             for k, (o, nv) in self.pending.items())))


def check(dr, ev, report):
    if dr.failed:
        report('C02/store/unit-failed', f'a generated algorithm failed while executing: {dr.failed[0]}')
    if dr.quiescent():
        got = dr.stored()
        want = dr.reference()
        bad = sorted(k for k in want if got.get(k) != want[k])
        if bad:
            k = bad[0]
            kind = 'stale-result' if got.get(k) is not None else 'missing-result'
            report(f'C02/store/{kind}',
                   f'at quiescence {k} holds {got.get(k)!r}, a from-scratch run gives {want[k]!r} '
                   f'({len(bad)} values differ)')


def jobs(ctx):
    out = []
    E = engines()
    if ctx.quick():
        out.append(('store', ctx.tier, ctx.seed, 'store-chain', E['store-chain'], ['A'], 2))
        out.append(('store', ctx.tier, ctx.seed, 'store-fanout', E['store-fanout'], ['A'], 1))
        out.append(('store', ctx.tier, ctx.seed, 'store-join', E['store-join'], ['A', 'B'], 1))
        # work and reply of a unit as separate events: two root re-runs whose
        # replies arrive in either order while the other is still busy
        out.append(('store', ctx.tier, ctx.seed, 'store-join', E['store-join'], ['A'], 2, {'split': True}))
        out.append(('store', ctx.tier, ctx.seed, 'store-fanout', E['store-fanout'], ['A'], 1, {'two_updates': True}))
    else:
        for name in E:
            out.append(('store', ctx.tier, ctx.seed, name, E[name], ['A', 'B'], 2))
        out.append(('store', ctx.tier, ctx.seed, 'store-join', E['store-join'], ['A'], 2, {'split': True}))
        out.append(('store', ctx.tier, ctx.seed, 'store-join', E['store-join'], ['A', 'B'], 1, {'split': True}))
        out.append(('store', ctx.tier, ctx.seed, 'store-chain', E['store-chain'], ['A'], 2, {'split': True}))
        out.append(('store', ctx.tier, ctx.seed, 'store-fanout', E['store-fanout'], ['A', 'B'], 2, {'two_updates': True}))
    return out


def job(args):
    _k, tier, seed, name, desc, targets, reruns = args[:7]
    opts = args[7] if len(args) > 7 else {}
    try:
        dr = Driver(name, desc, targets, reruns, **opts)
    except common.GraphMismatch as e:
        return {'name': name, 'targets': targets, 'states': 0, 'transitions': 0, 'capped': False,
                'violations': {'C02/task-graph-lacks-a-declared-algorithm': {
                    'what': f'[{name}] {e}', 'count': 1,
                    'replay': {'tier': 'store', 'engine': name, 'desc': desc, 'targets': targets, 'reruns': reruns,
                               'opts': opts, 'history': []}}}}
    try:
        def build(hist, report=None):
            dr.reset()
            if report is not None and not hist:
                check(dr, None, report)
            for i, ev in enumerate(hist):
                dr.apply(ev)
                if report is not None and i == len(hist) - 1:
                    check(dr, ev, report)
            return dr.canon()

        def expand(h):
            found = []
            rep = lambda hh: (lambda sig, what: found.append((sig, what, [list(e) for e in hh])))  # noqa: E731
            build(h, rep(h) if not h else None)
            evs = dr.enabled()
            return [(build(h + [ev], rep(h + [ev])), ev) for ev in evs], found

        k0 = build([])
        dr.close()     # forked workers must not inherit an open store
        res = explore.replay_bfs(expand, k0, procs=16, cap=20000, min_parallel=8, eager_pool=True)
        viol = {}
        for sig, what, hist in res['violations']:
            v = viol.setdefault(sig, {'what': f'[{name} targets={targets}] {what}',
                                      'replay': {'tier': 'store', 'engine': name, 'desc': desc, 'targets': targets,
                                                 'reruns': reruns, 'opts': opts, 'history': hist}, 'count': 0})
            v['count'] += 1
        return {'name': name + ''.join('+' + k for k in sorted(opts)), 'targets': targets, 'states': res['states'], 'transitions': res['transitions'],
                'violations': viol, 'capped': res['capped']}
    finally:
        dr.close()


def replay(data):
    r = data['replay']
    dr = Driver(r['engine'], r['desc'], r['targets'], r['reruns'], **r.get('opts', {}))
    hits = []
    try:
        dr.reset()
        for ev in [tuple(e) for e in r['history']]:
            dr.apply(ev)
            print('event', ev, 'epochs', {k: v for k, v in dr.epochs.items() if v}, 'inflight',
                  [(j, t) for j, t, _r, _u in dr.w.inflight])
            check(dr, ev, lambda s, t: hits.append(s) or print('  !!', s, t))
    finally:
        dr.close()
    bad = data['signature'] in hits
    print('VIOLATES' if bad else 'ok')
    return 1 if bad else 0
