'''C10 - the life-cycle follows the documented state machine and returns to rest.

State graph of the real state.FSM (non-doctest branches, virtual threads),
explored breadth first to a fixpoint; every transition re-executes its history
on the reset FSM (live Twisted/transitions objects are not copied).
Stimuli are the real call sites: boot, fe.api.submit.Process / fe.submit.Process
steps 1, 3 and failure, farm.dispatch() (archive when idle + new data),
fe.api.cmd_reset, and run / deliver of every background thread in every order.
In EVERY reachable state each trigger that state.dot does not allow from that
state is fired once and must raise MachineError leaving everything identical.
'''

import collections

from . import common

LEVEL = 'model_checking'
TRIGGERS = ['starting_trigger', 'contemplation_trigger', 'running_trigger', 'gitting_trigger',
            'archiving_trigger', 'update_trigger', 'loading_trigger', 'updating_trigger']
PRIOS = ('now', 'todo_empty', 'garbage')
# triggers whose before-callback sets transitioning (start, save_prior_state, reset)
GUARDED = ('starting_trigger', 'archiving_trigger', 'loading_trigger')


class Driver:
    def __init__(self, max_sub, max_data, max_reset, eager=()):
        from . import fsmworld
        self.w = fsmworld.FSMWorld()
        self.w.eager = frozenset(eager)
        self.max_sub, self.max_data, self.max_reset = max_sub, max_data, max_reset
        self.prios = PRIOS

    def reset(self):
        w = self.w
        w.reset()
        self.sub = None          # in-progress submission: (flavor, process, prio)
        self.nsub = self.ndata = self.nreset = 0
        self.booted = False
        self.refused = None      # a submission already answered with a failure
        self.nlate = 0
        self.arch_from = None
        self.moves = []
        w.moves = self.moves

    def make_process(self, flavor, prio):
        import dawgie.fe.api.submit as api_submit
        import dawgie.fe.submit as old_submit
        from . import fsmworld
        cls = api_submit.Process if flavor == 'api' else old_submit.Process
        p = object.__new__(cls)
        pre = '_Process__'
        msg = 'unspecified' if flavor == 'api' else {'alert_status': 'danger', 'alert_message': 'unspecified'}
        for k, v in (('changeset', 'abc123'), ('clear', lambda: None), ('failed', False),
                     ('msg', msg), ('request', fsmworld.FakeRequest()),
                     ('repo', '/nowhere'), ('submission', prio)):
            setattr(p, pre + k, v)
        return p

    def enabled(self):
        w = self.w
        evs = []
        if not self.booted:
            return [('boot',)]
        for t in w.pending():
            evs.append(('run', t.tid))
        for t in w.undelivered():
            evs.append(('deliver', t.tid))
        if self.sub is None and self.nsub < self.max_sub:
            for flavor in ('api', 'legacy'):
                for prio in self.prios:
                    evs.append(('s1', flavor, prio))
        if self.sub is not None and self.sub[3]:
            evs.append(('s3',))
            evs.append(('sf',))
        if self.refused is not None and self.nlate < 1:
            # a left-over callback of a submission that was already refused and
            # answered (e.g. its compliance check ending later)
            evs.append(('late-failure',))
        if self.ndata < self.max_data:
            evs.append(('newdata',))
        evs.append(('dispatch',))
        if self.nreset < self.max_reset:
            evs.append(('reset',))
        return evs

    def apply(self, ev):
        '''returns (exception or None)'''
        import dawgie.pl.farm as farm
        w = self.w
        f = w.fsm
        kind = ev[0]
        try:
            if kind == 'boot':
                self.booted = True
                f.starting_trigger()
            elif kind == 'run':
                return w.run_thread(w.threads[ev[1]])
            elif kind == 'deliver':
                return w.deliver(w.threads[ev[1]])
            elif kind == 's1':
                self.nsub += 1
                p = self.make_process(ev[1], ev[2])
                r = p.step_1(None)
                accepted = r is None
                self.sub = (ev[1], p, ev[2], accepted)
                if not accepted:
                    # the Deferred chain of the legacy step_0: step_1 returned a Failure
                    # -> errback failure() -> (returns None) -> next callback step_3
                    p.failure(r)
                    if ev[1] == 'legacy':
                        p.step_3(None)
                    self.sub = None
                    self.refused = p
            elif kind == 's3':
                _fl, p, _prio, _a = self.sub
                self.sub = None
                p.step_3(None)
            elif kind == 'sf':
                _fl, p, _prio, _a = self.sub
                self.sub = None
                p.failure(None)
                if _fl == 'legacy':
                    p.step_3(None)      # the chain goes on after failure() (see s1)
                self.refused = p
            elif kind == 'late-failure':
                self.nlate += 1
                self.refused.failure(None)
            elif kind == 'newdata':
                self.ndata += 1
                farm.ARCHIVE = True
            elif kind == 'dispatch':
                farm.dispatch()
            elif kind == 'reset':
                import dawgie.fe.api
                self.nreset += 1
                dawgie.fe.api.cmd_reset(None)
        except Exception as e:  # noqa
            return e
        return None

    def canon(self):
        w = self.w
        return (w.snapshot(), self.booted,
                None if self.sub is None else (self.sub[0], self.sub[2], self.sub[3]),
                self.nsub, self.ndata, self.nreset, self.arch_from,
                self.refused is not None, self.nlate)


def check(dr, ev, exc, before, report):
    import transitions
    w = dr.w
    f = w.fsm
    if ev[0] == 'late-failure':
        now = dr.canon()
        if now[0] != before[0] or exc is not None:
            report('C10/answered-submission-acts-again',
                   f'a second failure() of an already answered submission changed the machine: {before[0]} -> {now[0]} '
                   f'(exception {exc!r})')
    # (1) every state change is an edge of state.dot
    prev = before[0][0]
    allowed = set()
    for edges in w.dot.values():
        allowed |= edges
    for nxt in dr.moves:
        if (prev, nxt) not in allowed:
            report(f'C10/undocumented-transition/{prev}->{nxt}', f'event {ev}: {prev} -> {nxt} is not in state.dot')
        if nxt == 'archiving':
            dr.arch_from = prev
        elif prev == 'archiving':
            if dr.arch_from is not None and nxt != dr.arch_from:
                report(f'C10/archive-returns-to-{nxt}-instead-of-{dr.arch_from}',
                       f'event {ev}: archiving was entered from {dr.arch_from} but left to {nxt}')
            dr.arch_from = None
        prev = nxt
    rejected_poller = (exc is not None and type(exc).__name__ == 'MachineError' and ev[0] == 'deliver'
                       and w.threads[ev[1]].poller)
    if exc is not None and not rejected_poller:
        # (a MachineError raised when a waiter's completion finds the pipeline
        # in another state is a rejected trigger: C12 decides whether the
        # update is lost; here only "no side effects / still returns to rest")
        kind = type(exc).__name__
        where = ev[0] if ev[0] not in ('run', 'deliver') else f'{ev[0]}:{w.threads[ev[1]].kind}'
        report(f'C10/step-raises/{kind}/{where}/in-{before[0][0]}',
               f'event {ev} in state {before[0][0]} raised {exc!r}')
    # (3) at rest => running or gitting, transitioning active
    if dr.booted and w.at_rest():
        if f.state not in ('running', 'gitting') or f.transitioning.name != 'active':
            report(f'C10/rest-in-{f.state}-{f.transitioning.name}',
                   f'no background step outstanding but state={f.state} transitioning={f.transitioning.name}')
    # (4) declares itself active only when at rest in running
    if f.is_pipeline_active() and not w.at_rest():
        kinds = sorted({t.kind for t in w.threads if not t.poller and (not t.done or (t.kind in ('_pipeline', '_reload') and not t.delivered))})
        report('C10/active-while-background-step-outstanding/' + '+'.join(kinds),
               f'is_pipeline_active() is True while {kinds} have not completed')
    if f.is_pipeline_active() != (f.state == 'running' and f.transitioning.name == 'active'):
        report('C10/activity-predicate', 'is_pipeline_active() disagrees with state/transitioning')


def probe_illegal(dr, report):
    '''fire every trigger the dot file does not allow from this state'''
    import transitions
    w = dr.w
    f = w.fsm
    for trig in TRIGGERS:
        if any(src == f.state for src, _d in w.dot.get(trig, ())):
            # allowed by the diagram from this state.  While a background step
            # is outstanding (transitioning != active) the triggers whose
            # 'before' callback takes the entering/exiting guard must still be
            # refused without side effects.
            if f.transitioning.name == 'active' or trig not in GUARDED:
                continue
            before = dr.canon()
            moves0 = list(dr.moves)
            try:
                getattr(f, trig)()
                report(f'C10/trigger-accepted-during-transition/{trig}/in-{before[0][0]}-{before[0][1]}',
                       f'{trig} accepted in state {before[0][0]} while {before[0][1]}')
            except Exception:  # noqa  (MachineError; today a TypeError from the message formatting)
                pass
            if dr.canon() != before or dr.moves != moves0:
                report(f'C10/trigger-during-transition-has-side-effects/{trig}/in-{before[0][0]}',
                       f'{trig} in {before[0][0]} while {before[0][1]} changed the state: {before} -> {dr.canon()}')
                return False
            continue
        before = dr.canon()
        moves0 = list(dr.moves)
        try:
            getattr(f, trig)()
            report(f'C10/illegal-trigger-accepted/{trig}/from-{before[0][0]}',
                   f'{trig} in state {before[0][0]} did not raise')
        except transitions.MachineError:
            pass
        except Exception as e:  # noqa
            report(f'C10/illegal-trigger-raises-{type(e).__name__}/{trig}', f'{trig}: {e!r}')
        if dr.canon() != before or dr.moves != moves0:
            report(f'C10/illegal-trigger-has-side-effects/{trig}/from-{before[0][0]}',
                   f'{trig} rejected in {before[0][0]} but the state changed: {before} -> {dr.canon()}')
            return False
    return True


def drain(dr, report):
    '''run every outstanding background step (FIFO): must end at rest'''
    w = dr.w
    for _ in range(40):
        todo = [t for t in w.threads if not t.poller and (not t.done or (t.kind in ('_pipeline', '_reload') and not t.delivered))]
        if not todo:
            break
        t = todo[0]
        if not t.done:
            w.run_thread(t)
        else:
            w.deliver(t)
    else:
        report('C10/background-steps-never-finish', 'background steps keep spawning')
        return
    f = w.fsm
    if dr.booted and (f.state not in ('running', 'gitting') or f.transitioning.name != 'active'):
        report(f'C10/does-not-return-to-rest/{f.state}-{f.transitioning.name}',
               f'after completing all background steps: state={f.state} {f.transitioning.name}')


def job(args):
    tier, seed, max_sub, max_data, max_reset = args[:5]
    eager = tuple(args[5]) if len(args) > 5 else ()
    dr = Driver(max_sub, max_data, max_reset, eager)
    if tier == 'quick':
        dr.prios = ('now', 'todo_empty')
    viol = {}

    def build(hist, report=None):
        dr.reset()
        before = dr.canon()
        for i, ev in enumerate(hist):
            before = dr.canon()
            del dr.moves[:]
            exc = dr.apply(ev)
            check(dr, ev, exc, before, report if (report is not None and i == len(hist) - 1) else (lambda s, t: None))
        return dr.canon()

    def rec(h):
        def report(sig, what):
            v = viol.setdefault(sig, {'what': what, 'replay': {'history': [list(e) for e in h],
                                                              'bounds': [max_sub, max_data, max_reset, list(eager)]},
                                      'count': 0})
            v['count'] += 1
        return report

    k0 = build([])
    probes = [0]

    def expand(h):
        found = []

        def rec2(hh):
            def report(sig, what):
                found.append((sig, what, [list(e) for e in hh]))
            return report

        build(h)
        evs = dr.enabled()
        if dr.booted:
            probe_illegal(dr, rec2(h))
            build(h)
            drain(dr, rec2(h))
        succ = []
        for ev in evs:
            nk = build(h + [ev], rec2(h + [ev]))
            succ.append((nk, ev))
        return succ, found

    from . import explore
    res = explore.replay_bfs(expand, k0, cap=250000 if tier == 'quick' else 4000000)
    for sig, what, hist in res['violations']:
        v = viol.setdefault(sig, {'what': what, 'replay': {'history': hist,
                                                          'bounds': [max_sub, max_data, max_reset, list(eager)]}, 'count': 0})
        v['count'] += 1
        if len(hist) < len(v['replay']['history']):
            v['what'], v['replay']['history'] = what, hist
    return {'states': res['states'], 'transitions': res['transitions'], 'probes': res['states'],
            'violations': viol, 'bounds': [max_sub, max_data, max_reset, list(eager)], 'capped': res['capped'],
            'digest': common.digest(sorted(repr(k) for k in res['keys']))}


# ------------------------------------------------------------------ reload tier
CHANGESETS = ('edit-only', 'new-helper-module', 'new-stdlib-import', 'drop-import', 'new-helper-in-leaf')


def write_ae(root, gen, applied):
    '''the algorithm-engine package as of the changesets applied so far'''
    import os
    base = os.path.join(root, 'c10ae', 'sky')
    os.makedirs(base, exist_ok=True)
    bot = ['import c10ae.sky.algorithms']
    alg = []
    for cs in applied:
        if cs == 'new-helper-module':
            bot.append('import c10ae.sky.util')
        elif cs == 'new-stdlib-import':
            bot.append('import colorsys')
        elif cs == 'drop-import':
            bot = [b for b in bot if b != 'import c10ae.sky.algorithms']
        elif cs == 'new-helper-in-leaf':
            alg.append('import c10ae.sky.extra')
    files = {
        os.path.join(root, 'c10ae', '__init__.py'): '',
        os.path.join(base, '__init__.py'): 'import c10ae.sky.bot\nGEN = %d\n' % gen,
        os.path.join(base, 'bot.py'): '\n'.join(bot) + '\nGEN = %d\n' % gen,
        os.path.join(base, 'algorithms.py'): '\n'.join(alg) + '\nGEN = %d\n' % gen,
        os.path.join(base, 'util.py'): 'GEN = %d\n' % gen,
        os.path.join(base, 'extra.py'): 'GEN = %d\n' % gen,
    }
    for fn, text in files.items():
        with open(fn, 'wt', encoding='utf-8') as f:
            f.write(text)


def reload_tier(args):
    '''the update path with the REAL FSM._reload and RollbackImporter: for every
    sequence of <= 2 changesets to a small engine package, boot, then one
    update cycle per changeset; after each the pipeline must be back at rest in
    running with the new code loaded'''
    tier, seed = args
    import builtins
    import importlib
    import itertools
    import os
    import shutil
    import sys
    import dawgie.context
    import dawgie.db
    import dawgie.pl.state as state
    from . import fsmworld

    ctx = common.Ctx('C10', tier, seed, LEVEL)
    w = fsmworld.FSMWorld()
    F = state.FSM
    saved = (F._reload, F._pipeline, state.RollbackImporter, dawgie.db.close, dawgie.context._rev,
             builtins.__import__, dawgie.context.ae_base_package)
    root = os.path.join(common.scratch_root(), 'c10reload')

    def pipeline(self, *a, **k):
        # what the scan does: import every package of the engine
        fsmworld._installed['world'][0].log.append('pipeline')
        builtins.__import__('c10ae.sky')

    F._reload = fsmworld._installed['_reload']
    F._pipeline = pipeline
    state.RollbackImporter = fsmworld._installed['RollbackImporter']
    dawgie.db.close = lambda: None
    dawgie.context._rev = lambda: 'r2'
    dawgie.context.ae_base_package = 'c10ae'
    depth = 2 if tier == 'quick' else 3

    def settle():
        for _ in range(50):
            todo = [t for t in w.pending() if not t.poller]
            und = [t for t in w.undelivered() if not t.poller]
            if not todo and not und:
                return
            for t in todo:
                w.run_thread(t)
            for t in [t for t in w.undelivered() if not t.poller]:
                w.deliver(t)

    try:
        for n in range(0, depth + 1):
            for seq in itertools.product(CHANGESETS, repeat=n):
                ctx.count('reload_histories')
                rep = {'tier': 'reload', 'changesets': list(seq)}
                shutil.rmtree(root, ignore_errors=True)
                os.makedirs(root)
                for m in [m for m in sys.modules if m == 'c10ae' or m.startswith('c10ae.')]:
                    del sys.modules[m]
                sys.modules.pop('colorsys', None)
                if root not in sys.path:
                    sys.path.insert(0, root)
                write_ae(root, 0, [])
                importlib.invalidate_caches()
                builtins.__import__ = saved[5]
                w.reset()
                f = w.fsm
                f.starting_trigger()
                settle()
                if not (f.state == 'running' and f.transitioning == state.Status.active):
                    raise common.HarnessBroken(f'reload tier: boot ends in {f.state}/{f.transitioning}')
                for i, cs in enumerate(seq):
                    write_ae(root, i + 1, seq[:i + 1])
                    importlib.invalidate_caches()
                    ctx.count('reload_cycles')
                    try:
                        f.update_trigger()
                    except Exception as e:  # noqa
                        ctx.violation(f'C10/reload/update-trigger-raises/{type(e).__name__}', f'{e!r}', rep)
                        break
                    settle()
                    if not (f.state == 'running' and f.transitioning == state.Status.active and w.at_rest()):
                        failed = [repr(t.result) for t in w.threads if getattr(t, 'failed', False)]
                        ctx.violation(f'C10/reload/not-back-at-rest/in-{f.state}/{cs}',
                                      f'changesets {list(seq[:i + 1])}: after the update the pipeline is in {f.state}/'
                                      f'{f.transitioning.name}; failed background steps: {failed}', rep)
                        break
                    gens = {m: getattr(sys.modules.get(m), 'GEN', None)
                            for m in ('c10ae.sky', 'c10ae.sky.bot', 'c10ae.sky.algorithms')}
                    if any(g != i + 1 for g in gens.values()):
                        ctx.violation(f'C10/reload/stale-code-after-update/{cs}',
                                      f'changesets {list(seq[:i + 1])}: loaded generations {gens}, expected {i + 1}', rep)
                        break
    finally:
        (F._reload, F._pipeline, state.RollbackImporter, dawgie.db.close, dawgie.context._rev,
         builtins.__import__, dawgie.context.ae_base_package) = saved
        if root in sys.path:
            sys.path.remove(root)
        shutil.rmtree(root, ignore_errors=True)
    return ctx.export()


def run(ctx):
    for r in common.pmap(reload_tier, [(ctx.tier, ctx.seed)]):
        ctx.merge(r)
    jobs = [(ctx.tier, ctx.seed, 2, 1, 1)] if ctx.quick() else [(ctx.tier, ctx.seed, 2, 2, 1), (ctx.tier, ctx.seed, 3, 1, 2)]
    # fast background steps: the body of one kind of step has finished before
    # the statement after deferToThread runs (a schedule the lazy virtual
    # threads above cannot produce)
    for kind in ('_pipeline', '_navel_gaze', '_archive', '_reload'):
        jobs.append((ctx.tier, ctx.seed, 1 if ctx.quick() else 2, 1, 1, (kind,)))
    jobs.append((ctx.tier, ctx.seed, 1, 1, 1, ('_pipeline', '_navel_gaze', '_archive', '_reload')))
    states = transitions_n = 0
    per = []
    for r in [job(j) for j in jobs]:
        states += r['states']
        transitions_n += r['transitions']
        for sig, v in r['violations'].items():
            mine = ctx.violations.get(sig)
            if mine is None or len(v['replay']['history']) < len(mine['replay']['history']):
                if mine is not None:
                    v['count'] += mine['count']
                ctx.violations[sig] = v
            else:
                mine['count'] += v['count']
        if r.get('capped'):
            ctx.cap(f'state cap reached for bounds {r["bounds"]}')
        per.append({k: r[k] for k in ('states', 'transitions', 'probes', 'bounds', 'digest')})
        ctx.sample({k: r[k] for k in ('states', 'transitions', 'bounds')})
    ctx.assumptions += [
        'thread bodies run atomically between scheduling points (start, time.sleep, end); completion and Deferred '
        'delivery are separate events',
        'scan/db/build (_pipeline), git reload (_reload) and file rotation (_archive) are reduced to their FSM-relevant tail',
        'bounds: submissions / new-data events / user resets per history as listed per configuration']
    cov = {'states': states, 'transitions': transitions_n, 'traces_validated_against_impl': transitions_n,
           'explanation': 'every transition re-executes its history on the real FSM; in every state all illegal '
                          'triggers are probed and all outstanding background steps are drained',
           'reload_tier': 'real FSM._reload + RollbackImporter: every sequence of <= 2 (thorough 3) changesets out of '
                          f'{len(CHANGESETS)} to a generated package, one update cycle each: '
                          f'{ctx.counters.get("reload_histories", 0)} histories, {ctx.counters.get("reload_cycles", 0)} cycles',
           'per_configuration': per}
    return common.finish(ctx, cov, exhaustive=True)


def replay(data):
    r = data['replay']
    if r.get('tier') == 'reload':
        print('changeset sequence', r['changesets'], '- re-run `bin/check C10` (the reload tier executes all sequences)')
        return 1
    dr = Driver(*r['bounds'][:3], tuple(r['bounds'][3]) if len(r['bounds']) > 3 else ())
    dr.reset()
    hits = []
    for ev in [tuple(e) for e in r['history']]:
        before = dr.canon()
        del dr.moves[:]
        exc = dr.apply(ev)
        check(dr, ev, exc, before, lambda s, t: hits.append(s) or print('  !!', s, t))
        f = dr.w.fsm
        print('event', ev, '->', f.state, f.transitioning.name, 'moves', dr.moves, 'exc', repr(exc),
              'threads', [(t.kind, t.done, t.delivered) for t in dr.w.threads])
    probe_illegal(dr, lambda s, t: hits.append(s) or print('  !!', s, t))
    drain(dr, lambda s, t: hits.append(s) or print('  !!', s, t))
    bad = data['signature'] in hits
    print('VIOLATES' if bad else 'ok')
    return 1 if bad else 0
