'''entry point: bin/check <ID> [--tier T] [--replay file]'''
import argparse
import importlib
import json
import os
import sys
import traceback

sys.path.insert(0, os.path.dirname(os.path.dirname(os.path.abspath(__file__))))

from mc import common  # noqa: E402


def main():
    ap = argparse.ArgumentParser()
    ap.add_argument('pid')
    ap.add_argument('--tier', default=os.environ.get('VERIF_TIER', 'quick'))
    ap.add_argument('--replay', default=None)
    args = ap.parse_args()
    pid = args.pid.upper()
    tier = args.tier if args.tier in ('quick', 'thorough') else 'quick'
    try:
        seed = int(os.environ.get('VERIF_SEED', '0'))
    except ValueError:
        seed = 0
    try:
        mod = importlib.import_module(f'mc.{pid.lower()}')
        common.bootstrap(reactor=getattr(mod, 'NEEDS_REACTOR', True))
        if args.replay:
            with open(args.replay, encoding='utf-8') as f:
                data = json.load(f)
            return mod.replay(data)
        ctx = common.Ctx(pid, tier, seed, mod.LEVEL)
        rc = mod.run(ctx)
        return rc
    except common.HarnessBroken as e:
        print(f'HARNESS-BROKEN {pid}: {e}')
        return 2
    except Exception as e:  # noqa
        info = (e.kind, e.where, e.tb) if isinstance(e, common.CodeRaised) else None
        if info is None:
            c = common.classify_exception(e)
            if c is not None:
                info = (c[0], c[1], traceback.format_exc())
        if info is None or args.replay:
            traceback.print_exc()
            print(f'HARNESS-BROKEN {pid}: unexpected exception')
            return 2
        # the code under test raised where the exploration expected it to work:
        # the run stops here and reports that as a violation
        ctx = common.Ctx(pid, tier, seed, mod.LEVEL)
        ctx.violation(f'{pid}/code-under-test-raises/{info[0]}/{info[1]}',
                      f'{info[0]} left {info[1]} during the exploration; traceback tail: ' + info[2][-600:],
                      {'traceback': info[2][-1500:]})
        ctx.cap('exploration aborted by an exception out of the code under test')
        return common.finish(ctx, {'evaluations': 0, 'distinct_nontrivial': 0, 'states': 0, 'transitions': 0,
                                   'traces_validated_against_impl': 0,
                                   'rule': 'aborted: see the violation'}, exhaustive=False)
    finally:
        common.cleanup_scratch()


if __name__ == '__main__':
    sys.exit(main())
