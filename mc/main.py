'''entry point: bin/check <ID> [--tier T] [--replay file]'''
import argparse
import importlib
import json
import os
import sys
import traceback

sys.path.insert(0, os.path.dirname(os.path.dirname(os.path.abspath(__file__))))

from mc import common  # noqa: E402


def main():
    ap = argparse.ArgumentParser()
    ap.add_argument('pid')
    ap.add_argument('--tier', default=os.environ.get('VERIF_TIER', 'quick'))
    ap.add_argument('--replay', default=None)
    args = ap.parse_args()
    pid = args.pid.upper()
    tier = args.tier if args.tier in ('quick', 'thorough') else 'quick'
    try:
        seed = int(os.environ.get('VERIF_SEED', '0'))
    except ValueError:
        seed = 0
    try:
        mod = importlib.import_module(f'mc.{pid.lower()}')
        common.bootstrap(reactor=getattr(mod, 'NEEDS_REACTOR', True))
        if args.replay:
            with open(args.replay, encoding='utf-8') as f:
                data = json.load(f)
            return mod.replay(data)
        ctx = common.Ctx(pid, tier, seed, mod.LEVEL)
        rc = mod.run(ctx)
        return rc
    except common.HarnessBroken as e:
        print(f'HARNESS-BROKEN {pid}: {e}')
        return 2
    except Exception:  # noqa
        traceback.print_exc()
        print(f'HARNESS-BROKEN {pid}: unexpected exception')
        return 2
    finally:
        common.cleanup_scratch()


if __name__ == '__main__':
    sys.exit(main())
