'''C18 - execution history: every run recorded once, queries return the window.

Exhaustive enumeration on the real chronicle.append / chronicle.find /
schedule.complete / fe.api.schedule.{succeeded,failed} under a virtual clock:

  A (time logic)   every multiset of <= N completion instants from a 14 point
                   menu engineered around the boundaries the backwards day walk
                   crosses  x  every window (after, before) in (menu+None)^2
                   x limit in {None,1,2}: find() == brute force.
  B (append logic) every sequence of <= 3 appends over 18 entry kinds (3
                   instants x 3 outcomes x 2 run ids, so that the
                   read-modify-write of one journal file is exercised), entries
                   recorded through the real schedule.complete(): after every
                   append every earlier entry is present exactly once in the
                   journal files, and find() per outcome == brute force.
  C (user query)   the same windows through fe.api.schedule.succeeded/failed.
'''

import datetime as dt
import itertools
import json
import os
import shutil

from . import common

LEVEL = 'exploration'
UTC = dt.UTC


def D(y, m, d, hh=0, mm=0, ss=0, us=0):
    return dt.datetime(y, m, d, hh, mm, ss, us, tzinfo=UTC)


MENU = [
    D(2022, 12, 31, 23, 59, 59, 500000),
    D(2023, 1, 1, 0, 0, 0),
    D(2023, 2, 28, 12, 0, 0),
    D(2024, 2, 28, 23, 59, 59, 500000),
    D(2024, 2, 29, 0, 0, 0),
    D(2024, 2, 29, 0, 0, 0, 500000),
    D(2024, 3, 1, 6, 0, 0),
    D(2024, 3, 10, 18, 0, 0),
    D(2024, 3, 11, 6, 0, 0),
    D(2024, 3, 11, 8, 0, 0),
    D(2024, 3, 30, 12, 0, 0),
    D(2024, 3, 31, 12, 0, 0),
    D(2024, 4, 1, 0, 0, 1),
    D(2024, 12, 31, 18, 0, 0),
]
NOW = D(2025, 1, 2, 3, 4, 5)


def mk_entry(n, when, status='success', runid=None):
    e = _mk_entry(n, when, status, runid)
    if n % 2 == 1 and hasattr(when, 'year'):
        # other timestamps of the run, on another calendar day, listed after
        # 'completed' (the journal is organised by completion time only)
        import datetime as _d
        e['timing']['started'] = str(when - _d.timedelta(hours=26))
        e['timing']['loaded'] = str(when - _d.timedelta(hours=25))
    return e


def _mk_entry(n, when, status='success', runid=None):
    return {
        'changeset': 'rev',
        'runid': runid if runid is not None else 1 + n % 2,
        'status': status,
        'target': f'T{n}',
        'task': f't.a{n}',
        'timing': {'completed': str(when)},
        'version': '1.0.0',
    }


def ident(e):
    return (e['task'], e['target'], int(e['runid']), e['status'],
            str(e['timing']['completed']))


class Env:
    def __init__(self):
        from . import world
        import dawgie.context
        import dawgie.pl.logger.chronicle as chron
        import dawgie.pl.schedule as sched

        self.chron = chron
        self.sched = sched
        self.clock = world.VClock(NOW)
        self.clock.install(chron, 'datetime')
        self.clock.install(sched, 'datetime')
        self.root = os.path.join(common.scratch_root(), 'c18')
        dawgie.context.data_dbs = self.root

    def fresh(self):
        shutil.rmtree(self.root, ignore_errors=True)
        os.makedirs(self.root)

    def journal_entries(self):
        out = []
        base = os.path.join(self.root, 'chronicles')
        for d, _ds, fs in os.walk(base):
            for fn in fs:
                with open(os.path.join(d, fn), encoding='utf-8') as f:
                    out.extend(json.load(f))
        return out

    def close(self):
        self.clock.uninstall()
        shutil.rmtree(self.root, ignore_errors=True)


def completed_of(e):
    return dt.datetime.fromisoformat(e['timing']['completed'])


def ref_window(entries, after, before, status):
    out = []
    for e in entries:
        c = e['_when']
        if e['status'] != status:
            continue
        if after is not None and not after < c:
            continue
        if before is not None and not c < before:
            continue
        out.append(e)
    return out


def judge(got, appended, after, before, limit, status):
    '''returns None or (clause, text)'''
    win = ref_window(appended, after, before, status)
    win_ids = sorted(ident(e) for e in win)
    got_ids = [ident(e) for e in got]
    times = [completed_of(e) for e in got]
    if any(a < b for a, b in zip(times, times[1:])):
        return 'order', f'not newest first: {got_ids}'
    if len(set(got_ids)) != len(got_ids):
        return 'repeat', f'entry returned twice: {got_ids}'
    if not set(got_ids) <= set(win_ids):
        return 'outside-window', (
            f'returned {sorted(set(got_ids) - set(win_ids))} outside the window')
    if limit is None:
        if sorted(got_ids) != win_ids:
            return 'missing', (
                f'missing {sorted(set(win_ids) - set(got_ids))}')
        return None
    if after is not None and before is not None:
        # statement: truncation only promised for upper-bound-only / limit-only
        if sorted(got_ids) == win_ids:
            return None
    if after is not None and before is None:
        # after + limit: the one case the statement does not fix
        if len(got) > limit:
            return 'over-limit', f'{len(got)} entries for limit {limit}'
        return None
    # newest `limit` entries of the window (ties at the cut may go either way)
    if len(got) != min(limit, len(win)):
        return 'truncation', (
            f'{len(got)} entries returned, window has {len(win)}, limit {limit}')
    if got:
        cut = min(times)
        left = [e for e in win if ident(e) not in set(got_ids)]
        if any(e['_when'] > cut for e in left):
            return 'truncation', 'a newer entry of the window was left out'
    return None


def wname(x):
    return None if x is None else x.isoformat(sep=' ')


def culprit(entries, after, before, limit):
    '''cause class for the signature: which boundary the case sits on'''
    f = []
    if before is not None and any(
        e['_when'].date() < before.date() and e['_when'].time() >= before.time()
        for e in entries
    ):
        f.append('entry-later-in-day-than-upper-bound-on-earlier-day')
    if after is not None and before is not None and after.time() > before.time():
        f.append('lower-bound-later-in-day-than-upper')
    if any(e['_when'].microsecond for e in entries):
        f.append('subsecond')
    f.append('limit' if limit is not None else 'nolimit')
    f.append(('A' if after else '-') + ('B' if before else '-'))
    return ','.join(f)


def phase_a(args):
    tier, seed, shard, nshards, maxn = args
    ctx = common.Ctx('C18', tier, seed, LEVEL)
    env = Env()
    outcomes = set()
    try:
        windows = [(a, b) for a in [None] + MENU for b in [None] + MENU]
        n = -1
        for size in range(0, maxn + 1):
            for combo in itertools.combinations_with_replacement(range(len(MENU)), size):
                n += 1
                if n % nshards != shard:
                    continue
                env.fresh()
                appended = []
                for i, mi in enumerate(combo):
                    e = mk_entry(i, MENU[mi])
                    env.chron.append(e)   # append converts the datetime
                    e = dict(e)
                    e['_when'] = MENU[mi]
                    appended.append(e)
                ctx.count('histories')
                for after, before in windows:
                    for limit in (None, 1, 2):
                        if after is None and before is None and limit is None:
                            continue
                        ctx.count('find_calls')
                        try:
                            got = env.chron.find(after, before, limit, True)
                        except Exception as ex:  # noqa
                            ctx.violation(
                                f'C18/find-raises/{type(ex).__name__}',
                                f'find raised {ex!r}',
                                rep(appended, after, before, limit))
                            continue
                        bad = judge(got, appended, after, before, limit, 'success')
                        outcomes.add(tuple(ident(e) for e in got))
                        if bad:
                            ctx.violation(
                                f'C18/find-{bad[0]}/{culprit(appended, after, before, limit)}',
                                f'find(after={wname(after)}, before={wname(before)}, '
                                f'limit={limit}) with entries '
                                f'{[wname(e["_when"]) for e in appended]}: {bad[1]}',
                                rep(appended, after, before, limit))
                if appended:
                    ctx.sample({'entries': [wname(e['_when']) for e in appended]})
        out = ctx.export()
        out['outcomes'] = len(outcomes)
        return out
    finally:
        env.close()


def rep(appended, after, before, limit, status='success', api=False):
    return {
        'entries': [
            {'when': wname(e['_when']), 'status': e['status'],
             'runid': e['runid']} for e in appended],
        'after': wname(after), 'before': wname(before), 'limit': limit,
        'status': status, 'api': api,
    }


B_INSTANTS = [D(2024, 3, 10, 18, 0, 0), D(2024, 3, 10, 23, 59, 59), D(2024, 3, 11, 6, 0, 0)]


def make_node(tag):
    import dawgie
    import dawgie.pl.dag
    import dawgie.util.fifo
    from . import mini

    return dawgie.pl.dag.Node(tag, attrib={
        'alg': mini.Alg(tag.split('.')[-1]), 'do': set(), 'doing': set(),
        'todo': dawgie.util.fifo.Unique(), 'status': None})


def phase_b(args):
    '''append logic through the real schedule.complete'''
    tier, seed, shard, nshards, depth = args
    from dawgie.pl.jobinfo import State

    ctx = common.Ctx('C18', tier, seed, LEVEL)
    env = Env()
    sm = {'success': State.success, 'failure': State.failure,
          'invalid': State.invalid}
    kinds = [(w, s, r, 'doing') for w in range(3) for s in sm for r in (1, 2)]
    if depth < 0:
        # the scheduler state in which the reply arrives: target still in
        # `doing`, target no longer there (withdrawn meanwhile), the node
        # already dequeued, an aspect (`__all__`) run; run id 0 (regressions)
        depth = -depth
        kinds = [(w, s, r, d) for w in (0, 2) for s in sm for r in (0, 1)
                 for d in ('doing', 'left-doing', 'dequeued', 'all')]
    try:
        n = -1
        for size in range(1, depth + 1):
            for seq in itertools.product(range(len(kinds)), repeat=size):
                n += 1
                if n % nshards != shard:
                    continue
                env.fresh()
                ctx.count('histories')
                appended = []
                for i, ki in enumerate(seq):
                    wi, status, runid, where = kinds[ki]
                    env.clock.set(B_INSTANTS[wi])
                    node = make_node(f't.a{i}')
                    tgt = f'T{i}'
                    if where == 'doing':
                        node.get('doing').add(tgt)
                    elif where == 'left-doing':
                        node.get('doing').add('other')
                    elif where == 'all':
                        node.get('doing').add('__all__')
                        tgt = '__all__'
                    if where != 'dequeued':
                        env.sched.que.append(node)
                    try:
                        env.sched.complete(node, runid, tgt,
                                           {'started': B_INSTANTS[wi]}, sm[status])
                    finally:
                        if node in env.sched.que:
                            env.sched.que.remove(node)
                    e = mk_entry(i, B_INSTANTS[wi], status, runid)
                    e['target'] = tgt
                    e['_when'] = B_INSTANTS[wi]
                    appended.append(e)
                    # every entry so far present exactly once
                    ctx.count('append_checks')
                    have = sorted((x['task'], x['target'], int(x['runid']), x['status'],
                                   x['timing']['completed']) for x in env.journal_entries())
                    want = sorted((x['task'], x['target'], int(x['runid']), x['status'],
                                   wname(x['_when'])) for x in appended)
                    if have != want:
                        lost = [w for w in want if w not in have]
                        ctx.violation(
                            'C18/append/' + ('lost' if lost else 'duplicated'),
                            f'journal holds {have}, appended {want}',
                            rep(appended, None, None, None))
                env.clock.set(NOW)
                for status, flag in (('success', True), ('failure', False)):
                    ctx.count('find_calls')
                    got = env.chron.find(None, NOW, None, flag)
                    bad = judge(got, appended, None, NOW, None, status)
                    if bad:
                        ctx.violation(
                            f'C18/find-{bad[0]}/outcome={status}',
                            f'{bad[1]}', rep(appended, None, NOW, None, status))
        return ctx.export()
    finally:
        env.close()


def phase_c(args):
    '''the user-facing query'''
    tier, seed, shard, nshards, maxn = args
    import dawgie.fe.api.schedule as api

    ctx = common.Ctx('C18', tier, seed, LEVEL)
    env = Env()
    try:
        windows = [(a, b) for a in [None] + MENU[6:12] for b in [None] + MENU[6:12]]
        n = -1
        for size in range(1, maxn + 1):
            for combo in itertools.combinations(range(6, 12), size):
                n += 1
                if n % nshards != shard:
                    continue
                env.fresh()
                appended = []
                for i, mi in enumerate(combo):
                    st = 'success' if i % 2 == 0 else 'failure'
                    e = mk_entry(i, MENU[mi], st)
                    env.chron.append(e)
                    e = dict(e)
                    e['_when'] = MENU[mi]
                    appended.append(e)
                import datetime as _dtm
                zones = (None, _dtm.timezone(_dtm.timedelta(hours=2)), _dtm.timezone(_dtm.timedelta(hours=-7)))
                for (after, before), zone in itertools.product(windows, zones):
                    if zone is not None and after is None and before is None:
                        continue

                    def iso(t):
                        # the same instant written with another UTC offset
                        return (t if zone is None else t.astimezone(zone)).isoformat()

                    for limit in (None, 2):
                        if after is None and before is None and limit is None:
                            continue
                        for status, fn in (('success', api.succeeded), ('failure', api.failed)):
                            ctx.count('api_calls')
                            try:
                                raw = fn(
                                    after=[iso(after)] if after else None,
                                    before=[iso(before)] if before else None,
                                    limit=[str(limit)] if limit else None)
                                got = json.loads(raw)['content']
                            except Exception as ex:  # noqa
                                ctx.violation(
                                    f'C18/api-raises/{type(ex).__name__}',
                                    f'{fn.__name__} raised {ex!r}',
                                    rep(appended, after, before, limit, status, True))
                                continue
                            bad = judge(got, appended, after, before, limit, status)
                            if bad:
                                ctx.violation(
                                    f'C18/api-{bad[0]}/{culprit(appended, after, before, limit)}'
                                    + ('' if zone is None else '/bounds-written-with-utc-offset'),
                                    f'{fn.__name__}(after={wname(after)}, before='
                                    f'{wname(before)}, limit={limit}, bounds written in zone {zone}): {bad[1]}',
                                    rep(appended, after, before, limit, status, True))
        return ctx.export()
    finally:
        env.close()


def run(ctx):
    quick = ctx.quick()
    maxn = 3 if quick else 4
    nsh = 32
    outcomes = 0
    for r in common.pmap(phase_a, [(ctx.tier, ctx.seed, s, nsh, maxn) for s in range(nsh)]):
        ctx.merge(r)
        outcomes += r['outcomes']
    for r in common.pmap(phase_b, [(ctx.tier, ctx.seed, s, 16, 3) for s in range(16)]
                         + [(ctx.tier, ctx.seed, s, 16, -2) for s in range(16)]):
        ctx.merge(r)
    for r in common.pmap(phase_c, [(ctx.tier, ctx.seed, s, 16, 3 if quick else 4) for s in range(16)]):
        ctx.merge(r)
    c = ctx.counters
    ctx.assumptions += [
        'all instants are timezone aware UTC (journal directories are UTC dates)',
        'virtual now lies after every recorded completion',
        'after+limit (no upper bound) only checked for: subset of window, <= limit, newest first',
        'after+before+limit: full window or newest-limit both accepted',
    ]
    cov = {
        'evaluations': c.get('find_calls', 0) + c.get('api_calls', 0) + c.get('append_checks', 0),
        'distinct_nontrivial': outcomes,
        'rule': f'A: every multiset of <= {maxn} instants of a 14-point menu x 15x15 windows x 3 limits; '
                'B: every sequence of <= 3 appends over 18 entry kinds through schedule.complete, and every sequence of <= 2 over 48 kinds that vary the scheduler state at reply time (target in doing / withdrawn / node dequeued / __all__) and run id 0; '
                'C: fe.api.schedule.succeeded/failed on every subset (<=3) of 6 instants x 7x7 windows. '
                'distinct_nontrivial = distinct result lists returned by find() (summed over shards)',
        'histories': c.get('histories', 0),
    }
    return common.finish(ctx, cov, exhaustive=True)


def replay(data):
    r = data['replay']
    env = Env()
    try:
        env.fresh()
        appended = []
        for i, e in enumerate(r['entries']):
            when = dt.datetime.fromisoformat(e['when'])
            x = mk_entry(i, when, e['status'], e['runid'])
            env.chron.append(x)
            x = dict(x)
            x['_when'] = when
            appended.append(x)
        after = dt.datetime.fromisoformat(r['after']) if r['after'] else None
        before = dt.datetime.fromisoformat(r['before']) if r['before'] else None
        if after is None and before is None and r['limit'] is None:
            have = env.journal_entries()
            print('journal:', [ident(h) for h in have])
            return 0
        if r.get('api'):
            import dawgie.fe.api.schedule as api
            fn = api.succeeded if r['status'] == 'success' else api.failed
            got = json.loads(fn(after=[after.isoformat()] if after else None,
                                before=[before.isoformat()] if before else None,
                                limit=[str(r['limit'])] if r['limit'] else None))['content']
        else:
            got = env.chron.find(after, before, r['limit'], r['status'] == 'success')
        print('entries', [(e['when'], e['status']) for e in r['entries']])
        print('query after', r['after'], 'before', r['before'], 'limit', r['limit'])
        print('returned', [e['timing']['completed'] for e in got])
        bad = judge(got, appended, after, before, r['limit'], r['status'])
        print('VIOLATES ' + str(bad) if bad else 'ok')
        return 1 if bad else 0
    finally:
        env.close()
