'''runtime support imported by generated algorithm-engine packages'''

import importlib

import dawgie

CONTROL = {}  # pkg -> {'run': callable(task, alg, kind, handle)}
KINDS = (
    (dawgie.Algorithm, 'task'),
    (dawgie.Analyzer, 'analysis'),
    (dawgie.Regression, 'regress'),
)


def ident(s):
    return ''.join(c if c.isalnum() else '_' for c in s)


def kind_of(cls):
    for base, k in KINDS:
        if issubclass(cls, base):
            return k
    raise TypeError(cls)


def build_refs(pkg, specs, me):
    refs = []
    impls = {}
    for t, n, svn, vn in specs:
        mod = importlib.import_module(f'{pkg}.{t}')
        cls = getattr(mod, 'A_' + ident(n))
        if (t, n) not in impls:
            impls[(t, n)] = me if type(me) is cls else cls()
        impl = impls[(t, n)]
        factory = getattr(mod, kind_of(cls))
        if svn is None:
            refs.append(dawgie.ALG_REF(factory=factory, impl=impl))
            continue
        item = impl.sv_as_dict()[svn]
        if vn is None:
            refs.append(dawgie.SV_REF(factory=factory, impl=impl, item=item))
        else:
            refs.append(dawgie.V_REF(factory=factory, impl=impl, item=item, feat=vn))
    return refs


def run(pkg, task, alg, kind, handle):
    fn = CONTROL.get(pkg, {}).get('run')
    if fn is not None:
        return fn(task, alg, kind, handle)
    for sv in alg.state_vectors():
        for vn in list(sv.keys()):
            sv[vn] = type(sv[vn])(('const', task, alg.name(), sv.name(), vn))
    ds = handle if kind == 'task' else handle.ds()
    ds.update()
    return None
