'''runtime support imported by generated algorithm-engine packages'''

import importlib

import dawgie

CONTROL = {}  # pkg -> {'run': callable(task, alg, kind, handle)}
KINDS = (
    (dawgie.Algorithm, 'task'),
    (dawgie.Analyzer, 'analysis'),
    (dawgie.Regression, 'regress'),
)


def ident(s):
    return ''.join(c if c.isalnum() else '_' for c in s)


def kind_of(cls):
    for base, k in KINDS:
        if issubclass(cls, base):
            return k
    raise TypeError(cls)


def build_refs(pkg, specs, me):
    refs = []
    impls = {}
    for t, n, svn, vn in specs:
        mod = importlib.import_module(f'{pkg}.{t}')
        cls = getattr(mod, 'A_' + ident(n))
        if (t, n) not in impls:
            impls[(t, n)] = me if type(me) is cls else cls()
        impl = impls[(t, n)]
        factory = getattr(mod, kind_of(cls))
        if svn is None:
            refs.append(dawgie.ALG_REF(factory=factory, impl=impl))
            continue
        item = impl.sv_as_dict()[svn]
        if vn is None:
            refs.append(dawgie.SV_REF(factory=factory, impl=impl, item=item))
        else:
            refs.append(dawgie.V_REF(factory=factory, impl=impl, item=item, feat=vn))
    return refs


def run(pkg, task, alg, kind, handle):
    fn = CONTROL.get(pkg, {}).get('run')
    if fn is not None:
        return fn(task, alg, kind, handle)
    for sv in alg.state_vectors():
        for vn in list(sv.keys()):
            sv[vn] = type(sv[vn])(('const', task, alg.name(), sv.name(), vn))
    ds = handle if kind == 'task' else handle.ds()
    ds.update()
    return None


_GHOST = []


def _Ghost():
    """an algorithm no engine package owns.  The class is built on first use
    with the scanner's registration hook switched off: a dawgie.Algorithm
    subclass defined outside the engine package must not be seen by a scan
    that happens to be in progress"""
    if not _GHOST:
        saved = dawgie._master_registry
        dawgie._master_registry = lambda _cls=None: None
        try:
            class Ghost(dawgie.Algorithm):
                DAWGIE_IGNORE = True

                def __init__(self):
                    dawgie.Algorithm.__init__(self)
                    self._version_ = dawgie.VERSION(1, 0, 0)

                def name(self):
                    return 'ghost'

                def previous(self):
                    return []

                def state_vectors(self):
                    return []
        finally:
            dawgie._master_registry = saved
        _GHOST.append(Ghost)
    return _GHOST[0]()


class _GhostSV(dawgie.StateVector):
    DAWGIE_IGNORE = True

    def __init__(self):
        dawgie.StateVector.__init__(self)
        self._version_ = dawgie.VERSION(1, 0, 0)
        self['nope'] = None

    def name(self):
        return 'nope'

    def view(self, caller, visitor):
        return


def break_refs(refs, how):
    '''rule-breaking variants of the first reference (compliance harness)'''
    if not how or not refs:
        return refs
    r = refs[0]
    if how == 'ref-factory':
        r = r._replace(factory='not-a-function')
    elif how == 'ref-impl':
        r = r._replace(impl=object())
    elif how == 'ref-item':
        r = dawgie.SV_REF(factory=r.factory, impl=r.impl, item={})
    elif how == 'ref-feat':
        item = getattr(r, 'item', None) or r.impl.state_vectors()[0]
        r = dawgie.V_REF(factory=r.factory, impl=r.impl, item=item, feat=3)
    elif how == 'ref-missing-alg':
        r = dawgie.ALG_REF(factory=r.factory, impl=_Ghost())
    elif how == 'ref-missing-sv':
        r = dawgie.SV_REF(factory=r.factory, impl=r.impl, item=_GhostSV())
    elif how == 'ref-missing-val':
        item = getattr(r, 'item', None) or r.impl.state_vectors()[0]
        r = dawgie.V_REF(factory=r.factory, impl=r.impl, item=item, feat='nope')
    elif how == 'ref-not-a-ref':
        r = (r.factory, r.impl)
    return [r] + list(refs[1:])
