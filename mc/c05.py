'''C05 - see DESIGN.md section 2 (C05).

State graph of the real scheduler+farm (pl.schedule, pl.farm, pl.dag) per
engine, explored to a fixpoint under the stated bounds; oracle evaluated at
every release against the *generator's* dependency closure and the harness's
own in-flight ground truth (task messages decoded from worker transports).
'''
from . import common, aegen, schedcheck, c05worker

LEVEL = 'model_checking'
PID = 'C05'


def jobs(ctx, props):
    E = aegen.chain_engines()
    out = []
    quick = ctx.quick()
    for name, desc in E.items():
        for targets in (['A'], ['A', 'B']):
            if quick and len(targets) == 2 and name in ('diamond', 'join', 'task-analysis-task', 'shared-input'):
                reqs = 1
            else:
                reqs = 2
            if not quick:
                reqs = 2 if len(desc['algs']) >= 4 and len(targets) == 2 else 3
            out.append((name, desc, targets, props, {'reqs': reqs}))
    out += schedcheck.timer_jobs(props, quick)
    return out


def run(ctx):
    states, transitions, selfchecked, per = schedcheck.run(ctx, PID, jobs(ctx, {PID}))
    for p in per[:6]:
        ctx.sample(p)
    worker_cases = c05worker.run(ctx)
    cov = {
        'worker_tier_cases': worker_cases,
        'worker_tier': 'real pl.worker.cluster.execute + worker.Context + generated task package against the real '
                       'farm over an in-memory socket; engines x scenarios x endings '
                       f'({len(c05worker.engines())} x {len(c05worker.SCENARIOS)} x {len(c05worker.endings())}), '
                       'every case executed',
        'states': states, 'transitions': transitions,
        'traces_validated_against_impl': selfchecked,
        'explanation': 'exploration is on the implementation itself (no separate model): every '
                       'transition executes the real pl.schedule/pl.farm code; '
                       'traces_validated = histories re-executed from scratch without '
                       'snapshot/restore and required to reach the same canonical state',
        'per_engine': per,
    }
    return common.finish(ctx, cov, exhaustive=True)


def replay(data):
    return schedcheck.replay(data)
