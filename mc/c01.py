'''C01 - upstream work always finishes before dependent work is released.

State graph of the real scheduler+farm (pl.schedule, pl.farm, pl.dag) per
engine, explored to a fixpoint under the stated bounds; oracle evaluated at
every release against the *generator's* dependency closure and the harness's
own in-flight ground truth (task messages decoded from worker transports).
'''
from . import common, aegen, schedcheck

LEVEL = 'model_checking'
PID = 'C01'


def jobs(ctx, props):
    E = aegen.chain_engines()
    out = []
    quick = ctx.quick()
    for name, desc in E.items():
        for targets in (['A'], ['A', 'B']):
            if quick and len(targets) == 2 and name in ('diamond', 'join', 'task-analysis-task', 'shared-input'):
                reqs = 1
            else:
                reqs = 2
            if not quick:
                reqs = 2 if len(desc['algs']) >= 4 and len(targets) == 2 else 3
            out.append((name, desc, targets, props, {'reqs': reqs}))
    # shapes in which the level assigned by the first graph visit says nothing
    # about ancestry (an ancestor can tie with its descendant), and in which
    # the ancestry of a join must follow every parent's lineage to depth 3
    A = aegen.alg
    lop = [A('tr', 'r'), A('ta', 'a', inputs=[('tr', 'r', None, None)]), A('tb', 'b', inputs=[('tr', 'r', None, None)]),
           A('tc', 'c', inputs=[('tb', 'b', None, None)]),
           A('td', 'd', inputs=[('ta', 'a', None, None), ('tc', 'c', None, None)])]
    deep = [A('ta1', 'a'), A('tb1', 'b', inputs=[('ta1', 'a', None, None)]), A('tc1', 'c', inputs=[('tb1', 'b', None, None)]),
            A('ta2', 'a'), A('tb2', 'b', inputs=[('ta2', 'a', None, None)]), A('tc2', 'c', inputs=[('tb2', 'b', None, None)]),
            A('td', 'd', inputs=[('tc1', 'c', None, None), ('tc2', 'c', None, None)])]
    out.append(('lopsided-diamond', {'style': 'legacy', 'algs': lop}, ['A'], props,
                {'reqs': 1 if quick else 2, 'outcomes': ('success', 'success-none-new')}))
    # the mirror image (which branch is visited first depends on set order)
    lop2 = [A('tr', 'r'), A('tb', 'b', inputs=[('tr', 'r', None, None)]), A('ta', 'a', inputs=[('tr', 'r', None, None)]),
            A('tc', 'c', inputs=[('ta', 'a', None, None)]),
            A('td', 'd', inputs=[('tb', 'b', None, None), ('tc', 'c', None, None)])]
    out.append(('lopsided-diamond-mirrored', {'style': 'legacy', 'algs': lop2}, ['A'], props,
                {'reqs': 1 if quick else 2, 'outcomes': ('success', 'success-none-new')}))
    # ... and on the order in which the packages are met: the same two shapes
    # with the declarations reversed
    for nm, algs in (('lopsided-diamond', lop), ('lopsided-diamond-mirrored', lop2)):
        out.append((nm + '/declared-in-reverse', {'style': 'legacy', 'algs': list(reversed(algs))}, ['A'], props,
                    {'reqs': 1 if quick else 2, 'outcomes': ('success', 'success-none-new')}))
    menu = [('ta1.a', ('A',)), ('ta2.a', ('A',)), ('td.d', ('A',)), ('tc1.c', ('A',))]
    out.append(('deep-join', {'style': 'legacy', 'algs': deep}, ['A'], props,
                {'reqs': 2, 'req_menu': menu, 'outcomes': ('success-none-new',)}))
    out += schedcheck.timer_jobs(props, quick)
    return out


def run(ctx):
    states, transitions, selfchecked, per = schedcheck.run(ctx, PID, jobs(ctx, {PID}))
    for p in per[:6]:
        ctx.sample(p)
    cov = {
        'states': states, 'transitions': transitions,
        'traces_validated_against_impl': selfchecked,
        'explanation': 'exploration is on the implementation itself (no separate model): every '
                       'transition executes the real pl.schedule/pl.farm code; '
                       'traces_validated = histories re-executed from scratch without '
                       'snapshot/restore and required to reach the same canonical state',
        'per_engine': per,
    }
    return common.finish(ctx, cov, exhaustive=True)


def replay(data):
    return schedcheck.replay(data)
