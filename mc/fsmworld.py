'''The life-cycle world: the real dawgie.pl.state.FSM (doctest_=False) with
*virtual threads*.

twisted.internet.threads.deferToThread(f, *a) is replaced by a scheduler-owned
record; the explorer decides when a body runs ('run') and when its Deferred
fires in the reactor thread ('deliver') - exactly Twisted's contract (body off
thread, callbacks via callFromThread), with completion and callback delivery as
separate steps.  Poller bodies (is_crew_done / is_doing_done / is_todo_done)
loop on time.sleep: a patched sleep makes every loop iteration one 'run' step
(the loop has no local state, so re-entering it is the same as continuing it).

Bodies of the background steps are reduced to their FSM-relevant tail: _pipeline
and _reload are no-ops (scan/db/build are covered by other checks), _archive
calls the real done callback the way dawgie.db.archive does, _navel_gaze is the
real method with the metrics lookup stubbed.
'''

import threading

import pydot
import twisted.internet.defer
import twisted.internet.threads

from . import common

import dawgie.context
import dawgie.pl.farm as farm
import dawgie.pl.schedule as schedule
import dawgie.pl.state as state
import dawgie.pl.dag
import dawgie.util.fifo
import dawgie.tools.submit
from dawgie.pl.jobinfo import State as JobState


class Sleeping(Exception):
    '''a poller reached time.sleep: its loop iteration is over'''


class Abort(BaseException):
    '''the explorer abandons this history: unwind the poller thread'''


class VThread:
    def __init__(self, tid, fn, args, kwds):
        self.tid = tid
        self.fn = fn
        self.args = args
        self.kwds = kwds
        self.d = twisted.internet.defer.Deferred()
        self.done = False
        self.delivered = False
        self.result = None
        self.kind = getattr(fn, '__name__', 'thread')
        # pollers are real threads handed a baton: the body is ONE continuous
        # execution of the real function (locals survive between steps)
        self.os_thread = None
        self.go = threading.Semaphore(0)
        self.yielded = threading.Semaphore(0)
        self.abort = False

    def start_real(self):
        def body():
            _current.vt = self
            try:
                self.go.acquire()
                if self.abort:
                    return
                self.result = self.fn(*self.args, **self.kwds)
            except Abort:
                return
            except Exception as e:  # noqa
                self.result = e
                self.failed = True
            finally:
                self.done = True
                self.yielded.release()
        self.os_thread = threading.Thread(target=body, daemon=True)
        self.done = False
        self.os_thread.start()

    def step_real(self):
        self.go.release()
        self.yielded.acquire()

    def kill(self):
        if self.os_thread is not None and self.os_thread.is_alive():
            self.abort = True
            self.go.release()
            self.os_thread.join(5)

    @property
    def poller(self):
        return self.kind in ('is_crew_done', 'is_doing_done', 'is_todo_done')


_current = threading.local()


class FakeRequest:
    def __init__(self):
        self.out = []
        self.finished = False

    def write(self, b):
        self.out.append(b)

    gone = False

    def finish(self):
        if self.gone:
            # what twisted.web.http.Request.finish does once the client has left
            raise RuntimeError('Request.finish called on a request after its connection was lost; '
                               'use Request.notifyFinish to keep track of this.')
        self.finished = True


_installed = {}


class FSMWorld:
    def __init__(self, real_pollers=False):
        from . import pipeworld
        self.real_pollers = real_pollers
        self.eager = frozenset()
        pipeworld.install_seams()
        self.threads = []
        self.log = []
        self.moves = None
        self._install()
        self.fsm = state.FSM(doctest_=False)
        self.dot = self._edges()

    # ------------------------------------------------------------- seams
    def _install(self):
        w = self
        if not _installed:
            _installed['deferToThread'] = twisted.internet.threads.deferToThread
            _installed['sleep'] = state.time.sleep
            _installed['RollbackImporter'] = state.RollbackImporter
            _installed['plow'] = farm.plow
            _installed['_reload'] = state.FSM._reload
        world = [self]
        _installed['world'] = world

        def deferToThread(fn, *a, **k):
            ww = _installed['world'][0]
            t = VThread(len(ww.threads), fn, a, k)
            ww.threads.append(t)
            if t.poller and ww.real_pollers:
                t.start_real()
            elif t.kind in getattr(ww, 'eager', ()):
                # a fast thread: its body has finished before the caller's next
                # statement (the Deferred is still delivered later, in the
                # reactor thread)
                ww.run_thread(t)
            return t.d

        twisted.internet.threads.deferToThread = deferToThread

        class _Time:
            def __getattr__(self, name):
                return getattr(__import__('time'), name)

            @staticmethod
            def sleep(_s):
                vt = getattr(_current, 'vt', None)
                if vt is None:
                    raise Sleeping()
                vt.yielded.release()      # end of this scheduling quantum
                vt.go.acquire()
                if vt.abort:
                    raise Abort()

        state.time = _Time()
        F = state.FSM
        F._security = lambda self: None
        F._gui = lambda self: None
        F._logging = lambda self: None
        def _pipeline(self, *a, **k):
            _installed['world'][0].log.append('pipeline')

        def _reload(self, *a, **k):
            _installed['world'][0].log.append('reload')

        F._pipeline = _pipeline
        F._reload = _reload

        def _archive(self, *a, **k):
            _installed['world'][0].log.append('archive')
            # dawgie.db.archive(done) rotates the files and calls done()
            self._archive_done()

        F._archive = _archive
        import dawgie.pl.resources
        import dawgie.db
        dawgie.pl.resources.distribution = lambda *a, **k: {}
        dawgie.pl.resources.last_runid = lambda *a, **k: 0
        dawgie.db.metrics = lambda *a, **k: []
        farm.plow = lambda: None

        class NoRollback:
            def reload(self):
                pass

        state.RollbackImporter = NoRollback

        # record every assignment of the life-cycle state (transitions sets
        # model.state), so that intermediate states of nested triggers are seen
        def _get(self):
            return self.__dict__.get('_v_state')

        def _set(self, v):
            self.__dict__['_v_state'] = v
            ww = _installed['world'][0]
            if getattr(ww, 'moves', None) is not None:
                ww.moves.append(v)

        F.state = property(_get, _set)
        dawgie.tools.submit.already_applied = lambda *a, **k: False
        dawgie.tools.submit.mail_out = lambda *a, **k: None

    def _edges(self):
        import os
        g = pydot.graph_from_dot_file(
            os.path.join(os.path.dirname(state.__file__), 'state.dot'))[0]
        edges = {}
        for e in g.get_edges():
            a = e.get_attributes()
            edges.setdefault(a['trigger'], set()).add((a['source'], a['dest']))
        return edges

    # ------------------------------------------------------------- reset
    def reset(self):
        _installed['world'][0] = self
        f = self.fsm
        for t in self.threads:
            t.kill()
        self.threads = []
        self.log = []
        self.submissions = []
        f.machine.set_state('starting')
        f._FSM__transitioning = state.Status.active
        f._FSM__prior = None
        f.priority = None
        f.changeset = None
        f.open_again = False
        f.time_machine = None
        f.crew_thread = f.doing_thread = f.todo_thread = None
        f.wait_on_crew.set()
        f.wait_on_doing.set()
        f.wait_on_todo.set()
        f.wait_timeout = 0
        dawgie.context.fsm = f
        dawgie.context.git_rev = 'r1'
        farm.ARCHIVE = False
        farm._agency[0] = None
        for lst in (farm._busy, farm._cloud, farm._cluster, farm._workers,
                    farm._reject, farm._repeat, farm._jobs):
            del lst[:]
        farm._time.clear()
        schedule.que = []
        schedule.per = []
        schedule.pipeline_paused = False
        schedule.promote.clear()
        self.node = dawgie.pl.dag.Node('t.a', attrib={
            'do': set(), 'doing': set(), 'todo': dawgie.util.fifo.Unique(),
            'status': JobState.initial, 'level': 0})
        self.transitions = []
        self.update_calls = []

    # ------------------------------------------------------------- work state
    def set_work(self, busy, q):
        '''q: 'none' | 'waiting' | 'doing' '''
        import datetime
        del farm._busy[:]
        farm._time.clear()
        if busy:
            farm._busy.append('t.a[A]')
            farm._time['t.a[A]'] = datetime.datetime.now()
        n = self.node
        n.set('todo', dawgie.util.fifo.Unique())
        n.set('doing', set())
        if q == 'none':
            schedule.que = []
            n.set('status', JobState.waiting)
        elif q == 'waiting':
            n.get('todo').add('A')
            n.set('status', JobState.waiting)
            schedule.que = [n]
        else:
            n.get('doing').add('A')
            n.set('status', JobState.running)
            schedule.que = [n]

    def work(self):
        q = 'none'
        if schedule.que:
            q = 'doing' if self.node.get('doing') else 'waiting'
        return (bool(farm._busy), q)

    def condition(self, priority):
        P = dawgie.tools.submit.Priority
        if priority in (None, P.NOW):
            return True
        if priority == P.CREW:
            return not farm._busy
        if priority == P.DOING:
            return not schedule.view_doing()
        return not schedule.que

    # ------------------------------------------------------------- threads
    def pending(self):
        return [t for t in self.threads if not t.done]

    def undelivered(self):
        return [t for t in self.threads if t.done and not t.delivered]

    def run_thread(self, t):
        '''one scheduling quantum of the body; returns an exception or None'''
        if t.poller and t.os_thread is not None:
            t.step_real()
            return t.result if getattr(t, 'failed', False) else None
        try:
            t.result = t.fn(*t.args, **t.kwds)
            t.done = True
        except Sleeping:
            return None
        except Exception as e:  # noqa
            t.result = e
            t.done = True
            t.failed = True
            return e
        return None

    def deliver(self, t):
        '''fire the Deferred in the "reactor thread"; returns the exception a
        callback raised (Twisted would only log it as unhandled), if any'''
        import twisted.python.failure
        t.delivered = True
        if getattr(t, 'failed', False):
            t.d.errback(twisted.python.failure.Failure(t.result))
        else:
            t.d.callback(t.result)
        caught = []
        t.d.addErrback(lambda f: caught.append(f.value))
        return caught[0] if caught else None

    # ------------------------------------------------------------- views
    def at_rest(self):
        '''no background step outstanding.  _pipeline/_reload continue in their
        Deferred callback (done()), _navel_gaze/_archive finish inside the body'''
        for t in self.threads:
            if t.poller:
                continue
            if not t.done:
                return False
            if t.kind in ('_pipeline', '_reload') and not t.delivered:
                return False
        return True

    def snapshot(self):
        f = self.fsm
        return (f.state, f.transitioning.name, f._FSM__prior,
                f.priority.name if f.priority else None,
                f.wait_on_crew.is_set(), f.wait_on_doing.is_set(), f.wait_on_todo.is_set(),
                f.crew_thread is not None, f.doing_thread is not None, f.todo_thread is not None,
                farm.ARCHIVE, tuple(farm._busy), tuple(n.tag for n in schedule.que),
                tuple((t.kind, t.done, t.delivered) for t in self.threads))
