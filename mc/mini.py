'''Minimal picklable dawgie objects for the store/search harnesses.

Names and versions are parameters; classes live at module level so that the
real pickle path of dawgie.db.util.encode/decode is used unmodified.
'''

import dawgie

# declared ("current software") version of the value class; Value.__setstate__
# re-reads it from a fresh instance on every unpickle, exactly like AE values
VALUE_VERSION = [dawgie.VERSION(1, 0, 0)]


class Val(dawgie.Value):
    def __init__(self, content=None, ver=None):
        self.content = content
        self._version_ = ver if ver is not None else VALUE_VERSION[0]

    def features(self):
        return []

    def __eq__(self, other):
        return isinstance(other, Val) and self.content == other.content

    def __repr__(self):
        return f'Val({self.content!r})'

    __hash__ = None


class SV(dawgie.StateVector):
    def __init__(self, name, ver=(1, 0, 0), values=None):
        dawgie.StateVector.__init__(self)
        self._name = name
        self._version_ = dawgie.VERSION(*ver)
        for k, v in (values or {}).items():
            self[k] = v

    def name(self):
        return self._name

    def view(self, caller, visitor):
        return


class Alg(dawgie.Algorithm):
    def __init__(self, name, ver=(1, 0, 0), svs=(), prev=None):
        dawgie.Algorithm.__init__(self)
        self._name = name
        self._version_ = dawgie.VERSION(*ver)
        self._svs = list(svs)
        self._prev = prev or []

    def name(self):
        return self._name

    def previous(self):
        return self._prev

    def feedback(self):
        return []

    def state_vectors(self):
        return self._svs

    def run(self, ds, ps):
        ds.update()


class Bot(dawgie.Task):
    def __init__(self, name, runid, target='__all__', algs=()):
        dawgie.Task.__init__(self, name, 0, runid, target)
        self._algs = list(algs)

    def list(self):
        return self._algs
