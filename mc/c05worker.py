'''C05 worker tier: the real worker (pl.worker.cluster.execute + worker.Context
+ the generated task package) runs the unit it is handed by the real farm
(farm.Hand, farm.dispatch) over an in-memory socket, and the algorithm body ends
in every way of a fixed menu of endings.  MSG.success is therefore produced by
the real worker code and translated by the real Hand._res; the oracle is the
statement of C05 evaluated on the scheduler state around the reply.

Enumerated exhaustively: engine x scenario (what else is pending / in flight
when the unit ends) x ending.
'''
import importlib

from . import common, aegen

A = aegen.alg


class Quit(BaseException):
    '''an exit that does not derive from Exception (like SystemExit)'''


def endings():
    import dawgie
    return [
        ('success', None, 'success'),
        ('no-valid-input', lambda: dawgie.NoValidInputDataError('verif'), 'invalid'),
        ('no-valid-output', lambda: dawgie.NoValidOutputDataError('verif'), 'invalid'),
        ('runtime-error', lambda: RuntimeError('verif'), 'failure'),
        ('key-error', lambda: KeyError('verif'), 'failure'),
        ('abort-ae', lambda: dawgie.AbortAEError('verif'), 'failure'),
        ('memory-error', lambda: MemoryError('verif'), 'failure'),
        ('system-exit', lambda: SystemExit(2), 'failure'),
        ('keyboard-interrupt', lambda: KeyboardInterrupt(), 'failure'),
        ('base-exception', lambda: Quit('verif'), 'failure'),
    ]


def engines():
    sv = lambda: [aegen.sv('s', ('x',))]
    E = {}
    E['w-chain3'] = [A('ta', 'a', svs=sv()), A('tb', 'b', inputs=[('ta', 'a', 's', 'x')], svs=sv()),
                     A('tc', 'c', inputs=[('tb', 'b', 's', 'x')], svs=sv())]
    E['w-fork+free'] = [A('ta', 'a', svs=sv()), A('tb', 'b', inputs=[('ta', 'a', 's', 'x')], svs=sv()),
                        A('tc', 'c', inputs=[('ta', 'a', 's', 'x')], svs=sv()), A('td', 'd', svs=sv())]
    return {k: {'style': 'legacy', 'algs': v} for k, v in E.items()}


# scenario: requests made before the unit under test (ta.a for target A) ends
SCENARIOS = {
    'alone': [('ta.a', ('A',))],
    'both-targets': [('ta.a', ('A', 'B'))],
    'dependents-pending': [('ta.a', ('A', 'B')), ('tb.b', ('A', 'B')), ('tc.c', ('A', 'B'))],
}


class LoopSock:
    '''what dawgie.security.connect returns here: a connection to a real
    farm.Hand.  recv() on an empty connection lets the farm run one dispatch
    (the 5 s loop of the pipeline) before giving up.'''

    def __init__(self, world):
        from . import pipeworld
        self.w = world
        self.c = pipeworld.Conn(world)
        self.c.rev = 'r1'
        self.pos = 0
        self.closed = False

    def sendall(self, data):
        try:
            self.c.hand.dataReceived(data)
        except Exception as e:  # noqa
            self.w.obs.append(('handler-exception', type(e).__name__, str(e)[:160]))
            self.c.lose()

    def recv(self, n):
        for attempt in range(3):
            buf = self.c.tr.value()
            if len(buf) > self.pos:
                out = buf[self.pos:self.pos + n]
                self.pos += len(out)
                return out
            if self.c.lost or self.c.tr.disconnecting:
                raise ConnectionError('verif: farm closed the connection')
            self.w.ev_tick()
        raise common.HarnessBroken('worker waits for a message the farm never sends')

    def close(self):
        self.closed = True


def one(name, desc, scen, ending, ctx):
    import dawgie
    import dawgie.context
    import dawgie.db
    import dawgie.security
    import dawgie.pl.farm as farm
    import dawgie.pl.schedule as schedule
    import dawgie.pl.worker
    import dawgie.pl.worker.cluster as cluster
    from dawgie.db.shelve.state import DBI
    from . import pipeworld, world, aert

    ename, exc, expect = ending
    rep = {'engine': name, 'scenario': scen, 'ending': ename}
    store = world.StoreWorld()
    try:
        w = pipeworld.PipeWorld(desc, ['A', 'B'], mode='explicit', real_db=True)
        w.boot()
        store.as_foreman()
        for t in ('A', 'B'):
            dawgie.db.add(t)
        eng = w.eng
        unit = ('ta.a', 'A')

        def hook(task, alg, kind, handle):
            tag = f'{task}.{alg.name()}'
            if (tag, handle._tn()) == unit and exc is not None:
                raise exc()
            for sv in alg.state_vectors():
                for vn in list(sv.keys()):
                    sv[vn] = type(sv[vn])(('const', tag, sv.name(), vn))
            handle.update()

        aert.CONTROL[eng.pkg] = {'run': hook}
        for tag, tg in SCENARIOS[scen]:
            w.ev_req(tag, tg)

        saved = (dawgie.security.connect, dawgie.db.reopen, dawgie.db.close, dawgie.pl.worker.LOGGING,
                 dawgie.context.fsm)

        class NoLog:
            def reassign(self, host):
                return None

        def as_worker():
            DBI()._DBI__reopened = True
            return True

        def worker_close():
            # the worker is another process in real life: closing its data base
            # handle does not close the pipeline's
            DBI()._DBI__reopened = False

        FARM = ('verif-farm', 8081)
        db_connect = dawgie.security.connect    # the store's loopback (world.FakeSock)

        def connect(address):
            return LoopSock(w) if tuple(address) == FARM else db_connect(address)

        dawgie.security.connect = connect
        dawgie.db.reopen = as_worker
        dawgie.db.close = worker_close
        dawgie.pl.worker.LOGGING = NoLog()
        real_load = dawgie.pl.worker.load_context_with_overrides
        pipeline_fsm = dawgie.context.fsm

        def load_context(blob):
            # worker and pipeline share one process here: the worker's copy of
            # the context must not replace the pipeline's own FSM object
            real_load(blob)
            dawgie.context.fsm = pipeline_fsm

        dawgie.pl.worker.load_context_with_overrides = load_context
        fsm = dawgie.context.fsm
        before = {t: (tuple(n.get('todo')), tuple(sorted(n.get('doing')))) for t, n in w.nodes.items()}
        w.obs, w.chron = [], []
        log = []
        orig_update, orig_organize = schedule.update, schedule.organize
        schedule.update = lambda *a, **k: (log.append(('update', a[1].tag if len(a) > 1 else None)), orig_update(*a, **k))[1]
        left = None
        units = 0
        try:
            # workers take units until the one under test has been run
            for _ in range(6):
                w.obs = []
                try:
                    cluster.execute(FARM, 0, 0, 'r1')
                except common.HarnessBroken:
                    raise
                except BaseException as e:  # noqa: the worker process dies with it
                    left = type(e).__name__
                finally:
                    dawgie.context.fsm = fsm
                    w._patch()
                    dawgie.security.connect = connect
                    dawgie.db.reopen, dawgie.db.close = as_worker, worker_close
                    DBI()._DBI__reopened = False
                units += 1
                ran = [(c['task'], c['target']) for c in w.chron]
                if unit in ran or left is not None:
                    break
                if not (farm._cluster or farm._jobs or any(n.get('todo') for n in w.nodes.values())):
                    break
        finally:
            schedule.update = orig_update
            dawgie.pl.worker.load_context_with_overrides = real_load
            (dawgie.security.connect, dawgie.db.reopen, dawgie.db.close, dawgie.pl.worker.LOGGING,
             dawgie.context.fsm) = saved
        ctx.count('worker_runs', units)
        after = {t: (tuple(n.get('todo')), tuple(sorted(n.get('doing')))) for t, n in w.nodes.items()}
        apps = [c for c in w.chron if (c['task'], c['target']) == unit]
        kind = 'exception-outside-Exception' if ename in ('system-exit', 'keyboard-interrupt', 'base-exception') \
            else ename
        if [c['status'] for c in apps] != [expect]:
            ctx.violation(f'C05/worker/outcome-not-recorded/{kind}',
                          f'[{name}/{scen}] unit {unit} ended with {ename}: history has '
                          f'{[c["status"] for c in apps]}, expected [{expect}] (worker left with {left})', rep)
            return
        if expect != 'success':
            deps = eng.descendants('ta.a')
            for d in sorted(deps):
                if 'A' in after[d][0]:
                    ctx.violation(f'C05/worker/target-not-withdrawn/{kind}',
                                  f'[{name}/{scen}] {ename} of {unit}: dependent {d} still has A pending', rep)
            for t in after:
                for idx, nm in ((0, 'todo'), (1, 'doing')):
                    lost = set(before[t][idx]) - set(after[t][idx])
                    # other units that were run to reach the unit under test
                    lost -= {c['target'] for c in w.chron if c['task'] == t}
                    # released meanwhile
                    if idx == 0:
                        lost -= set(after[t][1])
                    allowed = {'A'} if (t == 'ta.a' or t in deps) else set()
                    if lost - allowed:
                        ctx.violation(f'C05/worker/frame/{nm}-shrank/{kind}',
                                      f'[{name}/{scen}] {ename} of {unit} removed {sorted(lost - allowed)} from {nm} of {t}', rep)
            if any(l[0] == 'update' and l[1] == 'ta.a' for l in log):
                ctx.violation(f'C05/worker/dependent-triggered/{kind}',
                              f'[{name}/{scen}] {ename} of {unit} reached schedule.update', rep)
    finally:
        store.close()


def work(args):
    tier, seed, name, desc, scen = args
    ctx = common.Ctx('C05', tier, seed, 'model_checking')
    for ending in endings():
        one(name, desc, scen, ending, ctx)
        ctx.count('worker_cases')
    return ctx.export()


def run(ctx):
    jobs = [(ctx.tier, ctx.seed, name, desc, scen) for name, desc in engines().items() for scen in SCENARIOS]
    for r in common.pmap(work, jobs):
        ctx.merge(r)
    return len(jobs) * len(endings())
