'''C11 worker tier: the real worker entry point (pl.worker.cluster.execute +
worker.Context) talks to the real farm (farm.Hand / farm.dispatch) over an
in-memory socket.  Enumerated exhaustively: worker revision (current / stale) x
what is queued (nothing / one unit / two units) x what happens while the unit
runs (nothing / the pipeline goes inactive / the pipeline moves to a new
revision).

Oracle (C11): a stale worker is refused, gets no task and consumes nothing; a
current worker on an active pipeline is handed exactly one released unit and
what it executes (job, target, run id, factory) is what farm._put built the
message for; a worker with nothing to do keeps waiting and is handed nothing.
(What happens to the reply is C03's / C05's business, not demanded here.)
'''
from . import common, aegen, c05worker

A = aegen.alg


class WorkerWaits(Exception):
    '''the worker blocks in receive(): nothing was sent to it'''


class Sock(c05worker.LoopSock):
    '''as LoopSock, with a horizon: after 6 dispatch rounds without a task the
    worker is declared waiting (the farm may keep answering "wait")'''
    ticks = 0

    def recv(self, n):
        buf = self.c.tr.value()
        if len(buf) > self.pos:
            out = buf[self.pos:self.pos + n]
            self.pos += len(out)
            return out
        if self.c.lost or self.c.tr.disconnecting:
            raise ConnectionError('verif: farm closed the connection')
        for _ in range(3):
            if Sock.ticks >= 6:
                raise WorkerWaits()
            Sock.ticks += 1
            self.w.ev_tick()
            buf = self.c.tr.value()
            if len(buf) > self.pos:
                out = buf[self.pos:self.pos + n]
                self.pos += len(out)
                return out
        raise WorkerWaits()


def engine():
    sv = lambda: [aegen.sv('s', ('x',))]
    return {'style': 'legacy', 'algs': [A('ta', 'a', svs=sv()), A('tb', 'b', svs=sv()),
                                        A('tr', 'r', 'regress', inputs=[('ta', 'a', 's', 'x')], svs=sv())]}


QUEUED = {'nothing': [], 'one': [('ta.a', ('A',))], 'two': [('ta.a', ('A',)), ('tb.b', ('A',))],
          'regression': [('tr.r', ('A',))]}
DURING = ('nothing', 'goes-inactive', 'new-revision')


def one(rev, queued, during, ctx):
    import dawgie
    import dawgie.context
    import dawgie.db
    import dawgie.security
    import dawgie.pl.farm as farm
    import dawgie.pl.worker
    import dawgie.pl.worker.cluster as cluster
    from dawgie.db.shelve.state import DBI
    from . import pipeworld, world, aert

    rep = {'tier': 'worker', 'worker_revision': rev, 'queued': queued, 'during_run': during}
    label = f'{rev}/{queued}/{during}'
    store = world.StoreWorld()
    try:
        w = pipeworld.PipeWorld(engine(), ['A'], mode='explicit', real_db=True)
        w.boot()
        store.as_foreman()
        dawgie.db.add('A')
        ran = []
        polls = []

        def hook(task, alg, kind, handle):
            ds = handle if kind == 'task' else handle.ds() if hasattr(handle, 'ds') else handle
            ran.append((f'{task}.{alg.name()}', getattr(ds, '_tn', lambda: None)(),
                        getattr(ds, '_runid', lambda: None)()))
            polls.append(('before', bool(alg.abort())))
            if during == 'goes-inactive':
                w.fsm.active = False
            elif during == 'new-revision':
                dawgie.context.git_rev = 'r2'
            polls.append(('after', bool(alg.abort())))
            for sv in alg.state_vectors():
                for vn in list(sv.keys()):
                    sv[vn] = type(sv[vn])(('const', task, sv.name(), vn))
            ds.update()

        aert.CONTROL[w.eng.pkg] = {'run': hook}
        for tag, tg in QUEUED[queued]:
            w.ev_req(tag, tg)
        puts = []
        real_put = farm._put

        def put(job, runid, target, where):
            puts.append((job.tag, target or '__all__', runid,
                         (dawgie.util.task_module(job.get('factory')), job.get('factory').__name__)))
            return real_put(job=job, runid=runid, target=target, where=where)

        FARM = ('verif-farm', 8081)
        db_connect = dawgie.security.connect
        socks = []

        def connect(address):
            if tuple(address) == FARM:
                socks.append(Sock(w))
                return socks[-1]
            return db_connect(address)

        saved = (dawgie.security.connect, dawgie.db.reopen, dawgie.db.close, dawgie.pl.worker.LOGGING,
                 dawgie.context.fsm, farm._put)

        class NoLog:
            def reassign(self, host):
                return None

        def as_worker():
            DBI()._DBI__reopened = True
            return True

        def worker_close():
            DBI()._DBI__reopened = False

        dawgie.security.connect = connect
        dawgie.db.reopen, dawgie.db.close = as_worker, worker_close
        dawgie.pl.worker.LOGGING = NoLog()
        real_load = dawgie.pl.worker.load_context_with_overrides
        pipeline_fsm = dawgie.context.fsm

        def load_context(blob):
            # worker and pipeline share one process here: the worker's copy of
            # the context must not replace the pipeline's own FSM object
            real_load(blob)
            dawgie.context.fsm = pipeline_fsm

        dawgie.pl.worker.load_context_with_overrides = load_context
        farm._put = put
        fsm = dawgie.context.fsm
        w.obs, w.chron = [], []
        outcome = 'returned'
        Sock.ticks = 0
        try:
            try:
                cluster.execute(FARM, 1, 0, rev)
            except WorkerWaits:
                outcome = 'waits'
            except ValueError as e:
                outcome = 'refused' if 'revision' in str(e) else f'ValueError:{e}'
            except BaseException as e:  # noqa
                outcome = f'{type(e).__name__}:{e}'
        finally:
            (dawgie.security.connect, dawgie.db.reopen, dawgie.db.close, dawgie.pl.worker.LOGGING,
             dawgie.context.fsm, farm._put) = saved
            dawgie.pl.worker.load_context_with_overrides = real_load
            dawgie.context.fsm = fsm
            w._patch()
            DBI()._DBI__reopened = False
        ctx.count('worker_runs')
        tasks = [o for o in w.obs if o[0] == 'task']
        sent = [(o[2], o[3], o[4], tuple(o[5])) for o in tasks]
        if rev != 'r1':
            if outcome != 'refused' or ran or tasks:
                ctx.violation('C11/worker/stale-worker-not-refused',
                              f'[{label}] worker with revision {rev}: {outcome}, ran {ran}, task messages {sent}', rep)
            return
        if queued == 'nothing':
            if outcome != 'waits' or ran or tasks:
                ctx.violation('C11/worker/idle-worker-does-not-wait',
                              f'[{label}] nothing queued: {outcome}, ran {ran}, task messages {sent}', rep)
            return
        if outcome != 'returned':
            ctx.violation(f'C11/worker/current-worker-gets-no-work/{outcome.split(":")[0]}',
                          f'[{label}] {outcome}; ran {ran}; task messages {sent}', rep)
            return
        if len(tasks) != 1 or len(ran) != 1:
            ctx.violation('C11/worker/not-exactly-one-task',
                          f'[{label}] {len(tasks)} task messages {sent}, executed {ran}', rep)
            return
        if sent[0] not in puts:
            ctx.violation('C11/worker/message-differs-from-released-unit',
                          f'[{label}] worker received {sent[0]}, farm built messages for {puts}', rep)
        jobid, tgt, runid, _fac = sent[0]
        if ran[0][0] != jobid or (ran[0][1] not in (tgt, None) and tgt != '__all__'):
            ctx.violation('C11/worker/executed-another-unit', f'[{label}] message {sent[0]}, executed {ran[0]}', rep)
        # the running unit asks (Algorithm.abort -> worker.Context.abort -> status
        # poll): the answer is the farm's answer at that moment
        want = [('before', False), ('after', during != 'nothing')]
        if polls[:2] != want:
            ctx.violation('C11/worker/status-poll-answer-not-current',
                          f'[{label}] abort() answered {polls[:2]} around "{during}", the farm would say {want}', rep)
        if ran[0][2] is not None and ran[0][2] != runid:
            ctx.violation('C11/worker/executed-under-another-run-id',
                          f'[{label}] message carries run id {runid}, the unit ran under {ran[0][2]}', rep)
    finally:
        store.close()


def work(args):
    tier, seed, rev = args
    ctx = common.Ctx('C11', tier, seed, 'model_checking')
    for queued in QUEUED:
        for during in DURING:
            one(rev, queued, during, ctx)
    return ctx.export()


def run(ctx):
    for r in common.pmap(work, [(ctx.tier, ctx.seed, rev) for rev in ('r1', 'r0', None)]):
        ctx.merge(r)
    return 3 * len(QUEUED) * len(DURING)
