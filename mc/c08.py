'''C08 - catalogue integrity and exact addressing.

Every subset of an 8-key universe whose names collide as prefixes (algorithms
a/ab, state vectors s/sx, values v/vv, targets T/T1, tasks t/tt, two versions of
algorithm a) is written into a real shelve store, in two insertion orders and
through all three registration paths (Interface.update over the wire,
pl.version.record pipeline side, pl.version.record worker side over the wire).
On every store: table/index bijection, id stability, chain resolution, next run
id, the same after close/reopen from disk; then every name-addressed operation
(remove for each of the 8 key names + 3 absent names, trace for every task.alg,
version reset for every stored (run,target,task,alg)) is compared with a
reference computed on exact name equality.
'''

import itertools

from . import common

LEVEL = 'exploration'

#            run target task alg  algver     sv    val
UNIVERSE = [
    (1, 'T', 't', 'a', (1, 0, 0), 's', 'v'),
    (1, 'T', 't', 'ab', (1, 1, 0), 's', 'v'),
    (1, 'T', 't', 'a', (1, 0, 0), 'sx', 'v'),
    (1, 'T', 't', 'a', (1, 0, 0), 's', 'vv'),
    (3, 'T1', 't', 'a', (1, 0, 0), 's', 'v'),
    (2, 'T', 't', 'a', (1, 0, 0), 's', 'v'),
    (1, 'T', 'tt', 'a', (1, 0, 0), 's', 'v'),
    (2, 'T', 't', 'a', (1, 2, 0), 's', 'v'),
]
ABSENT = [(1, 'T', 't', 'abc', 's', 'v'), (1, 'T', 't', 'a', 'sxx', 'v'),
          (9, 'T', 't', 'a', 's', 'v')]


def name_of(k):
    run, tgt, task, alg, _av, sv, val = k
    return (run, tgt, task, alg, sv, val)


def insert(k, path):
    '''path 0: Interface.update only; 1: version.record pipeline side first;
    2: version.record worker side (wire) first'''
    import dawgie.db
    import dawgie.pl.version
    from dawgie.db.shelve.state import DBI
    from . import mini

    run, tgt, task, alg, av, sv, val = k
    a = mini.Alg(alg, ver=av, svs=[mini.SV(sv, values={val: mini.Val(('c',) + name_of(k))})])
    b = mini.Bot(task, run, tgt, [a])
    if path:
        DBI()._DBI__reopened = path == 2
        dawgie.pl.version.record(b)
    DBI()._DBI__reopened = True
    dawgie.db.connect(a, b, tgt).update()
    DBI()._DBI__reopened = False


def tables():
    from dawgie.db.shelve.state import DBI
    t = DBI().tables
    i = DBI().indices
    return ({n: dict(getattr(t, n)) for n in t._fields},
            {n: list(getattr(i, n)) for n in i._fields if n != 'prime'})


def invariants(ctx, content, ids, where, rep):
    import dawgie.db
    from dawgie.db.shelve import util

    tb, ix = tables()
    for name in ('alg', 'state', 'target', 'task', 'value'):
        vals = sorted(tb[name].values())
        if vals != list(range(len(vals))):
            ctx.violation(f'C08/ids-not-gap-free/{name}/{where}',
                          f'{name} ids {vals}', rep)
        if len(ix[name]) != len(vals) or any(
                tb[name].get(n) != i for i, n in enumerate(ix[name])):
            ctx.violation(f'C08/index-mismatch/{name}/{where}',
                          f'{name} table {tb[name]} index {ix[name]}', rep)
        for n, i in tb[name].items():
            if ids.setdefault((name, n), i) != i:
                ctx.violation(f'C08/id-changed/{name}/{where}',
                              f'{n}: id {ids[(name, n)]} -> {i}', rep)
    inv = {name: {i: n for n, i in tb[name].items()} for name in tb if name != 'prime'}
    runs = []
    got = set()
    for ks in tb['prime']:
        run, tid, kid, aid, sid, vid = eval(ks)
        runs.append(run)
        try:
            tn = inv['target'][tid]
            kn = inv['task'][kid]
            ap, an, av = util.dissect(inv['alg'][aid])
            sp, sn, _sv = util.dissect(inv['state'][sid])
            vp, vn, _vv = util.dissect(inv['value'][vid])
        except KeyError as e:
            ctx.violation(f'C08/dangling-id/{where}', f'prime {ks}: no name for {e}', rep)
            continue
        if (ap, sp, vp) != (kid, aid, sid):
            ctx.violation(f'C08/chain-broken/{where}',
                          f'prime {ks}: parents {(ap, sp, vp)} != {(kid, aid, sid)}', rep)
        got.add((run, tn, kn, an, av.version, sn, vn))
    want = {(k[0], k[1], k[2], k[3], tuple(k[4]), k[5], k[6]) for k in content}
    got = {(g[0], g[1], g[2], g[3], tuple(g[4]), g[5], g[6]) for g in got}
    if got != want:
        ctx.violation(f'C08/content/{where}', f'store lists {sorted(got)}, inserted {sorted(want)}', rep)
    nxt = dawgie.db.next()
    if runs and nxt <= max(runs):
        ctx.violation(f'C08/next-run-id/{where}', f'next()={nxt}, stored max {max(runs)}', rep)
    if not runs and nxt < 1:
        ctx.violation(f'C08/next-run-id/{where}', f'next()={nxt} on an empty store', rep)
    return got


def work(args):
    tier, seed, shard, nshards = args
    import dawgie.db
    from dawgie.db.shelve.state import DBI
    from . import world, mini

    ctx = common.Ctx('C08', tier, seed, LEVEL)
    shapes = set()
    for mask in range(256):
        if mask % nshards != shard:
            continue
        base = [k for i, k in enumerate(UNIVERSE) if mask >> i & 1]
        for order in (0, 1):
            content = list(reversed(base)) if order else list(base)
            rep = {'content': content}
            w = world.StoreWorld()
            try:
                ids = {}
                for n, k in enumerate(content):
                    insert(k, (n + order) % 3)
                    ctx.count('inserts')
                    if tier != 'quick':
                        invariants(ctx, content[:n + 1], ids, 'after-insert', rep)
                listed = invariants(ctx, content, ids, 'after-inserts', rep)
                w.reopen_from_disk()
                invariants(ctx, content, ids, 'after-reopen', rep)
                ctx.count('stores')
                shapes.add(tuple(sorted(name_of(k) for k in content)))
                prime = DBI().tables.prime
                # ---- remove: exact names only
                for nm in [name_of(k) for k in UNIVERSE] + ABSENT:
                    before = dict(prime)
                    ctx.count('removes')
                    err = None
                    try:
                        dawgie.db.remove(*nm)
                    except Exception as e:  # noqa
                        err = e
                    after = dict(prime)
                    gone = set(before) - set(after)
                    # reference: prime keys whose six names are exactly nm
                    tb, _ix = tables()
                    inv = {n_: {i: n for n, i in tb[n_].items()} for n_ in tb if n_ != 'prime'}
                    from dawgie.db.shelve import util
                    want = set()
                    for ks in before:
                        run, tid, kid, aid, sid, vid = eval(ks)
                        six = (run, inv['target'][tid], inv['task'][kid],
                               util.dissect(inv['alg'][aid])[1],
                               util.dissect(inv['state'][sid])[1],
                               util.dissect(inv['value'][vid])[1])
                        if six == nm:
                            want.add(ks)
                    if gone != want or set(after) - set(before):
                        extra = sorted(gone - want)
                        what = 'removed-other-entries' if extra else 'not-removed'
                        tb_names = []
                        for ks in extra:
                            run, tid, kid, aid, sid, vid = eval(ks)
                            tb_names.append((run, inv['target'][tid], inv['task'][kid],
                                             util.dissect(inv['alg'][aid])[1],
                                             util.dissect(inv['state'][sid])[1],
                                             util.dissect(inv['value'][vid])[1]))
                        field = ''
                        if tb_names:
                            diff = [f for f, (x, y) in zip(
                                ('run', 'target', 'task', 'alg', 'sv', 'val'),
                                zip(nm, tb_names[0])) if x != y]
                            field = '/' + '+'.join(diff)
                        ctx.violation(
                            f'C08/remove/{what}{field}',
                            f'remove{nm} deleted {tb_names or sorted(gone)}; exact matches: {len(want)}'
                            + (f' (raised {err!r})' if err else ''),
                            dict(rep, op=['remove', list(nm)]))
                    for ks in gone:
                        prime[ks] = before[ks]
                # ---- trace
                tans = sorted({f'{k[2]}.{k[3]}' for k in content})
                for tan in tans:
                    ctx.count('traces')
                    try:
                        got = dawgie.db.trace([tan])
                    except Exception as e:  # noqa
                        ctx.violation(f'C08/trace-raises/{type(e).__name__}',
                                      f'trace([{tan}]) raised {e!r}', dict(rep, op=['trace', tan]))
                        continue
                    task, alg = tan.split('.')
                    vers = sorted({tuple(k[4]) for k in content if (k[2], k[3]) == (task, alg)})
                    newest = vers[-1]
                    want = {}
                    for tn in {k[1] for k in content}:
                        runs = [k[0] for k in content
                                if (k[1], k[2], k[3], tuple(k[4])) == (tn, task, alg, newest)]
                        want[tn] = {tan: max(runs)} if runs else {}
                    if got != want:
                        ctx.violation('C08/trace', f'trace([{tan}]) = {got}, exact-name reference {want}',
                                      dict(rep, op=['trace', tan]))
                # ---- version reset
                for key in sorted({(k[0], k[1], k[2], k[3]) for k in content}):
                    run, tn, task, alg = key
                    vers = sorted({tuple(k[4]) for k in content if (k[0], k[1], k[2], k[3]) == key})
                    if len(vers) != 1:
                        continue
                    a = mini.Alg(alg, ver=(9, 9, 9), svs=[mini.SV('s', ver=(9, 9, 9)), mini.SV('sx', ver=(9, 9, 9))])
                    ctx.count('resets')
                    try:
                        dawgie.db.reset(run, tn, task, a)
                    except Exception as e:  # noqa
                        ctx.violation(f'C08/reset-raises/{type(e).__name__}',
                                      f'reset{key} raised {e!r}', dict(rep, op=['reset', list(key)]))
                        continue
                    if tuple(a._get_ver()) != vers[0]:
                        ctx.violation('C08/reset/wrong-version',
                                      f'reset{key} set algorithm version {tuple(a._get_ver())}, stored {vers[0]}',
                                      dict(rep, op=['reset', list(key)]))
            finally:
                w.close()
        if mask % 37 == 0:
            ctx.sample({'content': base})
    out = ctx.export()
    out['shapes'] = [list(s) for s in shapes]
    return out


def work_wide(args):
    '''ids and run ids that cross a decimal digit boundary: 12 algorithms in
    one task (ids 0..11, so id 1 is a textual prefix of 10 and 11), runs
    8, 9, 10, 11, 99, 100, 101; after every insert: invariants + next();
    then reset / remove / trace of every algorithm'''
    tier, seed, order = args
    import dawgie.db
    from dawgie.db.shelve.state import DBI
    from . import world, mini

    ctx = common.Ctx('C08', tier, seed, LEVEL)
    algs = [f'g{i}' for i in range(12)]
    if order:
        algs = list(reversed(algs))
    runs = [8, 9, 10, 11, 99, 100, 101]
    content = []
    w = world.StoreWorld()
    try:
        ids = {}
        for i, a in enumerate(algs):
            ver = (1, i % 3, i)
            for r in (5, runs[i % len(runs)]):
                k = (r, 'T', 't', a, ver, 's', 'v')
                insert(k, i % 3)
                content.append(k)
                ctx.count('inserts')
                rep = {'content': content, 'wide': True}
                invariants(ctx, content, ids, 'wide-after-insert', rep)
        w.reopen_from_disk()
        invariants(ctx, content, ids, 'wide-after-reopen', {'content': content, 'wide': True})
        for i, a in enumerate(algs):
            ver = (1, i % 3, i)
            obj = mini.Alg(a, ver=(9, 9, 9), svs=[mini.SV('s', ver=(9, 9, 9))])
            ctx.count('resets')
            try:
                dawgie.db.reset(5, 'T', 't', obj)
            except Exception as e:  # noqa
                ctx.violation(f'C08/reset/raises/{type(e).__name__}/wide', f'reset(5,T,t,{a}) raised {e!r}',
                              {'content': content, 'wide': True, 'op': ['reset', [5, 'T', 't', a]]})
                continue
            if tuple(obj._get_ver()) != ver:
                ctx.violation('C08/reset/wrong-version/wide',
                              f'reset(5,T,t,{a}) set version {tuple(obj._get_ver())}, stored {ver} '
                              f'(algorithm id {DBI().tables.alg.get(f"0:parent___{a}___version:" + ".".join(map(str, ver)))})',
                              {'content': content, 'wide': True, 'op': ['reset', [5, 'T', 't', a]]})
            ctx.count('traces')
            try:
                got = dawgie.db.trace([f't.{a}'])
            except Exception as e:  # noqa
                got = f'raised {e!r}'
            want = {'T': {f't.{a}': max(5, runs[i % len(runs)])}}
            if got != want:
                ctx.violation('C08/trace/wide', f'trace([t.{a}]) = {got}, expected {want}',
                              {'content': content, 'wide': True, 'op': ['trace', f't.{a}']})
        prime = DBI().tables.prime
        for i, a in enumerate(algs):
            before = dict(prime)
            ctx.count('removes')
            try:
                dawgie.db.remove(5, 'T', 't', a, 's', 'v')
            except Exception as e:  # noqa
                ctx.violation(f'C08/remove/raises/{type(e).__name__}/wide', f'remove(5,T,t,{a},s,v) raised {e!r}',
                              {'content': content, 'wide': True, 'op': ['remove', [5, 'T', 't', a, 's', 'v']]})
                continue
            gone = set(before) - set(dict(prime))
            if len(gone) != 1:
                ctx.violation('C08/remove/wide', f'remove(5,T,t,{a},s,v) deleted {sorted(gone)}',
                              {'content': content, 'wide': True, 'op': ['remove', [5, 'T', 't', a, 's', 'v']]})
            for ks in gone:
                prime[ks] = before[ks]
    finally:
        w.close()
    return ctx.export()


def work_worm(args):
    '''db.tools.worm.consume (the operator tool built on remove): every
    criteria tuple over {None, value} per field, incl. the legal run id 0'''
    tier, seed = args
    import dawgie.db
    import dawgie.db.tools.worm as worm
    from dawgie.db.shelve.state import DBI
    from . import world

    ctx = common.Ctx('C08', tier, seed, LEVEL)
    content = [(r, t, 't', a, (1, 0, 0), 's', 'v') for r in (0, 1, 2) for t in ('T', 'T1') for a in ('a', 'ab')
               if not (t == 'T1' and r == 2)]
    crit = []
    for r in (None, 0, 1):
        for t in (None, 'T'):
            for a in (None, 'a'):
                for v in (None, 'v'):
                    if (r, t, a, v) != (None, None, None, None):
                        crit.append((r, t, None, a, None, v))
    for c in crit:
        w = world.StoreWorld()
        try:
            for n, k in enumerate(content):
                insert(k, 0)
            before = set(dawgie.db._prime_keys())
            ctx.count('removes')
            try:
                worm.consume(*c)
            except Exception as e:  # noqa
                ctx.violation(f'C08/worm-raises/{type(e).__name__}', f'consume{c} raised {e!r}',
                              {'content': content, 'op': ['consume', list(c)]})
                continue
            w.activate()
            dawgie.db.open()
            after = set(dawgie.db._prime_keys())
            want = set()
            for key in before:
                ids = key.split('.')
                ids[0] = int(ids[0])
                if all(e is None or i == e for i, e in zip(ids, c)):
                    want.add(key)
            if before - after != want:
                extra = sorted((before - after) - want)
                ctx.violation('C08/worm/' + ('removed-other-entries' if extra else 'not-removed')
                              + ('/run-id-0' if c[0] == 0 else ''),
                              f'consume{c} removed {sorted(before - after)}, criteria match {sorted(want)}',
                              {'content': content, 'op': ['consume', list(c)]})
        finally:
            w.close()
    return ctx.export()


def work_worm_cli(args):
    '''the worm tool started the way an operator starts it (its __main__
    block, argv): criteria on state-vector and value names whose roles must not
    be confused (a state vector called like a value and vice versa)'''
    tier, seed = args
    import os
    import sys
    import dawgie.db
    from . import world, c07

    ctx = common.Ctx('C08', tier, seed, LEVEL)
    ver = (1, 0, 0)
    content = [(1, 'T', 't', 'a', ver, 's', 'v'), (1, 'T', 't', 'a', ver, 's', 'w'), (1, 'T', 't', 'a', ver, 'v', 's'),
               (2, 'T', 't', 'a', ver, 'w', 'v'), (1, 'T1', 't', 'ab', ver, 's', 'v')]
    argvs = [['-s', 's'], ['-v', 'v'], ['-s', 's', '-v', 'w'], ['-r', '1', '-T', 'T', '-s', 'v'], ['-v', 's'],
             ['-a', 'a', '-v', 'w'], ['-r', '1'], ['-T', 'T1']]
    flag = {'-r': 0, '-T': 1, '-t': 2, '-a': 3, '-s': 4, '-v': 5}
    for argv in argvs:
        w = world.StoreWorld()
        try:
            for k in content:
                insert(k, 0)
            before = set(dawgie.db._prime_keys())
            w.as_foreman()
            dawgie.db.close()
            root = w.root

            def tool():
                import runpy
                import logging
                os.environ['DAWGIE_DOCKERIZED_AE_GIT_REVISION'] = 'verif'
                sys.argv = ['worm.py'] + argv + [
                    '--context-db-impl', 'shelve', '--context-db-name', 'verif',
                    '--context-db-path', os.path.join(root, 'db'), '--context-data-dbs', os.path.join(root, 'dbs'),
                    '--context-data-stg', os.path.join(root, 'stg'), '--context-data-log', os.path.join(root, 'logs')]
                try:
                    runpy.run_module('dawgie.db.tools.worm', run_name='__main__')
                except SystemExit as e:
                    return ('exit', e.code)
                finally:
                    logging.shutdown()
                return ('exit', 0)

            res = c07.in_child(tool)
            ctx.count('removes')
            rep = {'tier': 'worm-cli', 'content': content, 'argv': argv}
            if not res or res[0] == 'EXC':
                ctx.violation('C08/worm-cli/raises', f'worm {argv}: {res}', rep)
                continue
            w.activate()
            dawgie.db.open()
            after = set(dawgie.db._prime_keys())
            crit = [None] * 6
            for i in range(0, len(argv), 2):
                crit[flag[argv[i]]] = int(argv[i + 1]) if argv[i] == '-r' else argv[i + 1]
            want = set()
            for key in before:
                ids = key.split('.')
                ids[0] = int(ids[0])
                if all(e is None or i == e for i, e in zip(ids, crit)):
                    want.add(key)
            if before - after != want:
                extra = sorted((before - after) - want)
                ctx.violation('C08/worm-cli/' + ('removed-other-entries' if extra else 'not-removed'),
                              f'worm {" ".join(argv)} removed {sorted(before - after)}, the criteria match {sorted(want)}', rep)
        finally:
            w.close()
    return ctx.export()


def work_faults(args):
    '''one failing catalogue write (the shelve table raises "No space left on
    device") at EVERY write position of a registration; afterwards the failed
    job is run again and two more register: the catalogue invariants hold, also
    after close / reopen from disk'''
    tier, seed, path = args
    import shelve
    import dawgie.db
    from . import world

    ctx = common.Ctx('C08', tier, seed, LEVEL)
    k1, k2, k3 = UNIVERSE[0], UNIVERSE[1], UNIVERSE[6]
    real_set = shelve.Shelf.__setitem__
    state = {'n': 0, 'at': None}

    def faulty(self, key, value):
        i = state['n']
        state['n'] += 1
        if state['at'] is not None and i == state['at']:
            state['at'] = None
            raise OSError(28, 'verif: injected "No space left on device"')
        return real_set(self, key, value)

    shelve.Shelf.__setitem__ = faulty
    try:
        w = world.StoreWorld()
        try:
            state['n'] = 0
            insert(k1, path)
            total = state['n']
        finally:
            w.close()
        if total < 4:
            raise common.HarnessBroken(f'only {total} catalogue writes seen for one registration')
        for f in range(total):
            w = world.StoreWorld()
            rep = {'tier': 'write-fault', 'failing_write': f, 'of': total, 'path': path}
            try:
                state['n'], state['at'] = 0, f
                ctx.count('write_faults')
                try:
                    insert(k1, path)
                except Exception:  # noqa: the job fails, as it would
                    pass
                finally:
                    from dawgie.db.shelve.state import DBI
                    DBI()._DBI__reopened = False
                state['at'] = None
                try:
                    for k in (k1, k2, k3):
                        insert(k, path)
                except Exception as e:  # noqa
                    ctx.violation(f'C08/write-fault/later-registration-raises/{type(e).__name__}',
                                  f'after a failed catalogue write (#{f} of {total}) a later registration raised {e!r}', rep)
                    continue
                ids = {}
                invariants(ctx, [k1, k2, k3], ids, 'after-write-fault', rep)
                w.reopen_from_disk()
                try:
                    invariants(ctx, [k1, k2, k3], ids, 'after-write-fault+reopen', rep)
                    list(dawgie.db._prime_keys())
                except Exception as e:  # noqa
                    ctx.violation(f'C08/write-fault/catalogue-unreadable-after-reopen/{type(e).__name__}',
                                  f'after a failed catalogue write (#{f} of {total}) and a reopen: {e!r}', rep)
            finally:
                w.close()
    finally:
        shelve.Shelf.__setitem__ = real_set
    return ctx.export()


def run(ctx):
    from . import world
    world.validate_digest_seam(common.scratch_root())
    for r in common.pmap(work_faults, [(ctx.tier, ctx.seed, p) for p in (0, 1, 2)]):
        ctx.merge(r)
    for r in common.pmap(work_worm_cli, [(ctx.tier, ctx.seed)]):
        ctx.merge(r)
    for r in common.pmap(work_wide, [(ctx.tier, ctx.seed, 0), (ctx.tier, ctx.seed, 1)]):
        ctx.merge(r)
    for r in common.pmap(work_worm, [(ctx.tier, ctx.seed)]):
        ctx.merge(r)
    nsh = 32
    shapes = set()
    for r in common.pmap(work, [(ctx.tier, ctx.seed, s, nsh) for s in range(nsh)]):
        ctx.merge(r)
        shapes.update(tuple(tuple(x) for x in s) for s in r['shapes'])
    c = ctx.counters
    ctx.assumptions += ['shelve back end; names are the harness alphabet with prefix collisions',
                        'reset only checked where exact-name entries exist with a single version']
    cov = {
        'evaluations': sum(c.get(k, 0) for k in ('inserts', 'removes', 'traces', 'resets')),
        'distinct_nontrivial': len(shapes),
        'rule': 'every subset (256) of the 8-key prefix-colliding universe x 2 insertion orders x 3 registration '
                'paths; per store all invariants before and after reopen, 11 removes, every trace, every reset; '
                'distinct_nontrivial = distinct store contents',
        'stores': c.get('stores', 0),
    }
    return common.finish(ctx, cov, exhaustive=True)


def replay(data):
    import dawgie.db
    from . import world
    r = data['replay']
    w = world.StoreWorld()
    try:
        content = [tuple(tuple(x) if isinstance(x, list) else x for x in k) for k in r['content']]
        for n, k in enumerate(content):
            insert(k, n % 3)
        print('store:', sorted(dawgie.db._prime_keys()))
        op = r.get('op')
        if op and op[0] == 'remove':
            dawgie.db.remove(*op[1])
            print('after remove', op[1], ':', sorted(dawgie.db._prime_keys()))
        elif op and op[0] == 'trace':
            print('trace', op[1], dawgie.db.trace([op[1]]))
        print('(re-run bin/check C08 for the verdict)')
        return 0
    finally:
        w.close()
