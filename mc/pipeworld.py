'''The "pipeline world": real scheduler + farm + message framing driven
in-process.  States are explicit snapshots of the module state of
dawgie.pl.schedule / dawgie.pl.farm (plain data), so the explorer restores a
state and applies one event; full replays from the empty history are used
to validate the snapshots (see Explorer.selfcheck).

Real code in the loop: pl.scan.for_factories, pl.dag.Construct,
pl.schedule.{build,organize,next_job_batch,complete,update,purge,defer,
periodics}, pl.farm.{dispatch,_put,rerunid,Hand.*,notify_all,crew},
pl.message framing, pl.promotion.Engine (promotion off, the default).
Environment (owned by the harness): FSM answers, db.targets/db.next,
chronicle.append recorder, worker processes (they answer what the explorer
chooses), reactor timers, wall clock.
'''

import copy
import os
import struct

from . import common, aegen

import dawgie
import dawgie.context
import dawgie.db
import dawgie.pl.dag
import dawgie.pl.farm as farm
import dawgie.pl.logger.chronicle as chronicle
import dawgie.pl.message as message
import dawgie.pl.schedule as schedule
import dawgie.security
import dawgie.util.fifo
import pydot
from dawgie.pl.jobinfo import State
from twisted.internet.address import IPv4Address
from twisted.internet.error import ConnectionDone
from twisted.internet.testing import StringTransport
from twisted.python.failure import Failure


KNOWN_NODE_ATTRS = frozenset((
    'alg', 'ancestry', 'do', 'doing', 'event', 'factory', 'feedback', 'fired', 'level', 'parents', 'period',
    'runid', 'shape', 'status', 'todo', 'visitors', 'been_here'))


class StubFSM:
    '''three-method interface the scheduler/farm use; answers are harness
    choices.  Module level + plain attributes => picklable (context.dumps)'''

    def __init__(self):
        self.active = True
        self.crew_wait = False
        self.archive_calls = 0
        self.archiving = False
        self.state = 'running'

    def is_pipeline_active(self):
        return self.active

    def waiting_on_crew(self):
        return self.crew_wait

    def archiving_trigger(self):
        # the real machine leaves 'running': not active until the archive is done
        self.archive_calls += 1
        self.active = False
        self.archiving = True


_installed = {}


def install_seams():
    if _installed:
        return
    _installed['svg'] = pydot.Dot.write_svg

    def write_svg(self, fn, *a, **k):
        with open(fn, 'wb') as f:
            f.write(b'<svg/>')
        return True

    pydot.Dot.write_svg = write_svg
    dawgie.security._myself['file'] = 'x'  # use_tls() -> no legacy handshake
    root = common.scratch_root()
    dawgie.context.fe_path = os.path.join(root, 'fe')
    os.makedirs(dawgie.context.fe_path, exist_ok=True)
    _installed['append'] = chronicle.append
    _installed['targets'] = dawgie.db.targets
    _installed['next'] = dawgie.db.next


def frames(buf):
    out, i = [], 0
    while i + 4 <= len(buf):
        n = struct.unpack('>I', buf[i:i + 4])[0]
        if i + 4 + n > len(buf):
            break
        out.append(message.loads(buf[i + 4:i + 4 + n]))
        i += 4 + n
    return out, i


def wire(msg):
    b = message.dumps(msg)
    return struct.pack('>I', len(b)) + b


class Conn:
    '''one TCP connection to the farm (a real farm.Hand + StringTransport)'''

    def __init__(self, world, host='h0'):
        self.world = world
        self.hand = farm.Hand(IPv4Address('TCP', host, 1000 + len(world.conns)))
        self.tr = StringTransport()
        self.hand.makeConnection(self.tr)
        self.rpos = 0
        self.lost = False
        self.rev = None
        self.tasks = 0
        world.conns.append(self)

    def feed(self, msg):
        if self.lost or self.tr.disconnecting:
            return
        try:
            self.hand.dataReceived(wire(msg))
        except Exception as e:  # noqa
            # what twisted does with an exception out of dataReceived: log it
            # and drop the connection
            self.world.obs.append(('handler-exception', type(e).__name__, str(e)[:120]))
            self.lose()

    def new_messages(self):
        buf = self.tr.value()
        msgs, used = frames(buf[self.rpos:])
        self.rpos += used
        return msgs

    def lose(self):
        if not self.lost:
            self.lost = True
            self.hand.connectionLost(Failure(ConnectionDone()))


class PipeWorld:
    '''one engine + target set; module state of schedule/farm is *the* state'''

    def __init__(self, desc, targets, mode='ample', rev='r1', store_next=7, real_db=False, clock_at=None):
        install_seams()
        self.real_db = real_db
        self.clock = None
        self.clock_at = clock_at
        if clock_at is not None:
            from . import world
            self.clock = world.VClock(clock_at)
            self.clock.install(schedule, 'datetime')
        self.eng = aegen.Engine(desc)
        self.factories = self.eng.load(common.scratch_root())
        self.targets = list(targets)
        self.mode = mode
        self.rev = rev
        self.store_next = store_next
        self.fsm = StubFSM()
        self.conns = []
        self.chron = []      # chronicle.append recorder
        self.obs = []        # observations of the current step
        self.inflight = []   # ground truth: [jobid, target, runid, uid]
        self.uid = 0
        self.tasks_msgs = {}
        self.nodes = {}
        self.next_calls = 0
        self.next_total = 0
        self.monotone_next = False
        self.next_fault = False
        self.journal_fault = False
        self._patch()
        self.boot()

    # -------------------------------------------------------------- seams
    def _patch(self):
        w = self
        real_append = _installed['append']

        written = []

        def tracking_open(path, mode='r', *a, **k):
            if 'w' in mode:
                if w.journal_fault:
                    # environment deviation: the journal cannot be written once
                    w.journal_fault = False
                    raise OSError(28, 'verif: injected "No space left on device"')
                written.append(path)
            return open(path, mode, *a, **k)

        chronicle.open = tracking_open      # shadows the builtin inside chronicle only
        chron_dir = {}

        def app(entry):
            # the real chronicle.append (validation + journal file) on a scratch
            # journal; what the recorder keeps is what was read back from disk
            import json
            saved = dawgie.context.data_dbs
            pid = os.getpid()
            if pid not in chron_dir:
                chron_dir[pid] = os.path.join(common.scratch_root(), 'chron-%d' % pid)
            dawgie.context.data_dbs = chron_dir[pid]
            del written[:]
            try:
                real_append(entry)
                for fn in written:
                    with open(fn, 'rt', encoding='utf-8') as fh:
                        w.chron.extend(json.load(fh))
                    os.unlink(fn)   # directories stay: cheaper
            finally:
                dawgie.context.data_dbs = saved

        chronicle.append = app
        if getattr(self, 'real_db', False):
            # store tier: the real shelve store answers
            dawgie.db.targets = _installed['targets']
            dawgie.db.next = _installed['next']
        else:
            dawgie.db.targets = lambda *a, **k: list(w.targets)

            def nxt():
                # max(stored run ids) + 1: grows with every run that was started
                w.next_calls += 1
                if w.next_fault:
                    # environment deviation: one transient data-base outage
                    w.next_fault = False
                    raise IOError('verif: injected db.next() outage')
                if not w.monotone_next:
                    return w.store_next     # nothing is stored in this tier
                w.next_total += 1
                return w.store_next + w.next_total - 1

            dawgie.db.next = nxt
        dawgie.context.fsm = self.fsm
        dawgie.context.git_rev = self.rev

    def activate(self):
        self._patch()
        dawgie.context.ae_base_path = os.path.join(common.scratch_root(), *self.eng.pkg.split('.'))
        dawgie.context.ae_base_package = self.eng.pkg

    # -------------------------------------------------------------- boot
    def reset_modules(self):
        schedule.ae = None
        del schedule.booted[:]
        del schedule.err[:]
        del schedule.suc[:]
        schedule.que = []
        schedule.per = []
        schedule.pipeline_paused = False
        schedule.promote.clear()
        farm.ARCHIVE = False
        farm._agency[0] = None
        for lst in (farm._busy, farm._cloud, farm._cluster, farm._workers,
                    farm._reject, farm._repeat, farm._jobs):
            del lst[:]
        farm._time.clear()
        farm.insights.clear()
        for a in self.eng.algs:
            if a.get('where') == 'auto':
                # history says: heavy on cpu, place it in the cloud
                import dawgie.pl.resources as resources
                for t in list(self.targets) + ['__all__']:
                    farm.insights[f'{t}.{self.eng.tag(a)}'] = resources.HINT(1, 0, 0, 0, dawgie.Distribution.cloud)
        for c in self.conns:
            c.lost = True
        self.conns = []
        self.inflight = []
        self.chron = []
        self.obs = []

    def boot(self, latest=None, previous=None):
        '''what FSM.load does for the schedule: build() with version tables'''
        self.activate()
        self.reset_modules()
        self.fsm.active = True
        self.fsm.crew_wait = False
        self.fsm.archive_calls = 0
        dawgie.context.git_rev = self.rev
        self.next_calls = 0
        self.next_total = 0
        latest = latest or ({}, {}, {})
        previous = previous or ({}, {}, {}, {})
        schedule.build(self.factories, latest, previous)
        self.nodes = {}
        for root in schedule.ae.at:
            for n in root.iter():
                self.nodes[n.tag] = n
        missing = set(self.eng.tags()) - set(self.nodes)
        if missing:
            raise common.GraphMismatch(f'algorithms declared by the engine but missing from the task graph: {sorted(missing)}')
        if self.clock is not None:
            from . import world
            world.reset_reactor()
            self.clock.set(self.clock_at)
            schedule.periodics(self.factories[dawgie.Factories.events])

    # -------------------------------------------------------------- state
    def capture(self):
        nodes = []
        for tag in sorted(self.nodes):
            n = self.nodes[tag]
            nodes.append((
                tag, tuple(n.get('todo')), tuple(sorted(n.get('doing'))),
                tuple(sorted(n.get('do'))), n.get('status').name,
                n.get('runid'), n.get('event')))
        # anything else the code keeps on a node (state the harness does not
        # know about) is carried along, so that snapshots stay faithful
        extra = []
        for tag in sorted(self.nodes):
            for k, v in sorted(self.nodes[tag].attrib.items()):
                if k not in KNOWN_NODE_ATTRS:
                    extra.append((tag, k, copy.deepcopy(v)))
        workers = []
        first = {}
        for h in farm._workers:
            c = self._conn_of(h)
            # the same connection may be listed more than once (a register frame
            # processed twice): entries of one connection share their number
            k = first.setdefault(id(h), len(first))
            workers.append((c.rev, c.hand.address.host) if list(farm._workers).count(h) == 1
                           else (c.rev, c.hand.address.host, k))
        return {
            'nodes': tuple(nodes),
            'node_extra': tuple(extra),
            'que': tuple(n.tag for n in schedule.que),
            'per': tuple(n.tag for n in schedule.per),
            'paused': schedule.pipeline_paused,
            'jobs': tuple(n.tag for n in farm._jobs),
            'cluster': tuple(farm._cluster),
            'busy': tuple(farm._busy),
            'archive': farm.ARCHIVE,
            'workers': tuple(workers),
            'inflight': tuple(tuple(u) for u in self.inflight),
            'active': self.fsm.active,
            'crew_wait': self.fsm.crew_wait,
            'rev': dawgie.context.git_rev,
            'uid': self.uid,
            'nexts': self.next_total,
            'timed': self._timed_state(),
        }

    def _timed_state(self):
        if self.clock is None:
            return None
        import twisted.internet.reactor as reactor
        now = reactor.seconds()
        fired = tuple((t, tuple(sorted((n.get('fired') or {}).items())))
                      for t, n in sorted(self.nodes.items()) if n.get('fired'))
        return {'clock': round((self.clock.now - self.clock_at).total_seconds()),
                'timers': tuple(sorted(round(c.getTime() - now) for c in reactor.getDelayedCalls())),
                'fired': fired, 'booted': tuple(schedule.booted)}

    def restore(self, s):
        self.activate()
        dawgie.context.git_rev = s['rev']
        self.fsm.active = s['active']
        self.fsm.crew_wait = s['crew_wait']
        for tag, todo, doing, do, status, runid, event in s['nodes']:
            n = self.nodes[tag]
            n.set('todo', dawgie.util.fifo.Unique(list(todo)))
            n.set('doing', set(doing))
            n.set('do', set(do))
            n.set('status', State[status])
            n.set('runid', runid)
            if event is None:
                n.attrib.pop('event', None)
            else:
                n.set('event', event)
            for k in [k for k in n.attrib if k not in KNOWN_NODE_ATTRS]:
                del n.attrib[k]
        for tag, k, v in s.get('node_extra', ()):
            self.nodes[tag].set(k, copy.deepcopy(v))
        schedule.que = [self.nodes[t] for t in s['que']]
        schedule.per = [self.nodes[t] for t in s['per']]
        schedule.pipeline_paused = s['paused']
        schedule.promote.clear()
        farm.ARCHIVE = s['archive']
        farm._jobs[:] = [self.nodes[t] for t in s['jobs']]
        farm._cluster[:] = list(s['cluster'])
        farm._busy[:] = list(s['busy'])
        farm._time.clear()
        import datetime
        for b in farm._busy:
            farm._time[b] = datetime.datetime.now()
        del farm._cloud[:], farm._reject[:], farm._repeat[:]
        del farm._workers[:]
        for c in self.conns:
            c.lost = True
        self.conns = []
        shared = {}
        for entry in s['workers']:
            rev, host = entry[:2]
            if len(entry) > 2 and entry[2] in shared:
                farm._workers.append(shared[entry[2]].hand)
                continue
            c = Conn(self, host)
            c.rev = rev
            # registered earlier with the revision that was current then
            c.hand._Hand__incarnation = 0
            farm._workers.append(c.hand)
            if len(entry) > 2:
                shared[entry[2]] = c
        self.inflight = [list(u) for u in s['inflight']]
        self.uid = s['uid']
        self.next_total = s.get('nexts', 0)
        self.chron = []
        self.obs = []
        if self.clock is not None:
            import datetime
            import twisted.internet.reactor as reactor
            from . import world
            ts = s['timed']
            world.reset_reactor()
            self.clock.set(self.clock_at + datetime.timedelta(seconds=ts['clock']))
            for off in ts['timers']:
                reactor.callLater(off, lambda: schedule.defer())
            fired = dict(ts['fired'])
            for t, n in self.nodes.items():
                if t in fired:
                    n.set('fired', dict(fired[t]))
                else:
                    n.attrib.pop('fired', None)
            schedule.booted[:] = list(ts['booted'])

    @staticmethod
    def canon(s):
        '''property-relevant, order-insensitive where order is unobservable.
        uid renamed away; todo sorted (view_todo sorts; release sorts do)'''
        nodes = tuple((t, tuple(sorted(todo)), doing, do, st, rid)
                      for t, todo, doing, do, st, rid, _ev in s['nodes'])
        inflight = tuple(sorted((j, t, r) for j, t, r, _u in s['inflight']))
        return (nodes, s['que'], s['per'], s['paused'], s['jobs'],
                tuple((m.jobid, m.target, m.runid) for m in s['cluster']),
                tuple(sorted(s['busy'])), s['archive'], s['workers'], inflight,
                s['active'], s['crew_wait'], s['rev'],
                None if s.get('timed') is None else tuple(sorted(s['timed'].items())),
                tuple((t, k, repr(v)) for t, k, v in s.get('node_extra', ())))

    def _conn_of(self, hand):
        for c in self.conns:
            if c.hand is hand:
                return c
        raise common.HarnessBroken('idle worker without harness connection')

    # -------------------------------------------------------------- views
    def pending(self, tag):
        return set(self.nodes[tag].get('todo'))

    def executing(self, tag):
        '''ground truth in flight  (union with the node's doing)'''
        out = set(self.nodes[tag].get('doing'))
        out |= {t for j, t, _r, _u in self.inflight if j == tag}
        return out

    def executing_truth(self, tag):
        return {t for j, t, _r, _u in self.inflight if j == tag} | {
            (m.target or '__all__') for m in farm._cluster if m.jobid == tag}

    def busy_names(self):
        return sorted(b.split(' duration')[0] for b in farm.crew()['busy'])

    # -------------------------------------------------------------- events
    def collect(self):
        '''decode everything newly written to any connection'''
        for c in list(self.conns):
            for m in c.new_messages():
                if m.type == message.Type.task:
                    c.tasks += 1
                    tgt = m.target if m.target else '__all__'
                    self.uid += 1
                    self.inflight.append([m.jobid, tgt, m.runid, self.uid])
                    self.tasks_msgs[self.uid] = m
                    self.obs.append(('task', id(c), m.jobid, tgt, m.runid,
                                     m.factory, c.rev, c.lost, self.fsm.active,
                                     c.tasks))
                    c.lose()  # the worker closes the socket and goes to work
                elif m.type == message.Type.wait:
                    self.obs.append(('wait', id(c)))
                elif m.type == message.Type.response:
                    self.obs.append(('abort' if not m.success else 'proceed', id(c)))
                else:
                    self.obs.append(('other', id(c), m.type.name))
            if c.tr.disconnecting and not c.lost:
                c.lose()
                self.obs.append(('closed', id(c)))

    def ev_req(self, tag, targets):
        schedule.organize(task_names={tag}, targets=set(targets),
                          event='command-run requested by user')

    def ev_reg(self, rev=None, host='h0'):
        c = Conn(self, host)
        c.rev = rev or dawgie.context.git_rev
        c.feed(message.make(typ=message.Type.register, inc=0, rev=c.rev))
        self.collect()
        return c

    def ev_rereg(self, index):
        '''the register frame of an already registered, still waiting worker is
        processed a second time'''
        hand = farm._workers[index]
        c = self._conn_of(hand)
        c.feed(message.make(typ=message.Type.register, inc=0, rev=c.rev))
        self.collect()

    def ev_drop(self, index):
        hand = farm._workers[index]
        self._conn_of(hand).lose()

    def ev_poll(self, rev):
        c = Conn(self)
        c.rev = rev
        c.feed(message.make(typ=message.Type.status, rev=rev))
        self.collect()
        return self.obs[-2:] if self.obs else []

    def ev_tick(self, fault=False):
        self.next_fault = bool(fault)
        try:
            return self._ev_tick()
        finally:
            self.next_fault = False

    def _ev_tick(self):
        if self.mode == 'ample' and self.fsm.active:
            need = len(farm._cluster) + sum(
                max(1, len(n.get('todo'))) for n in schedule.que)
            for _ in range(need):
                self.ev_reg()
        released = None
        before = [n.tag for n in farm._jobs]
        try:
            farm.dispatch()
        except Exception as e:  # noqa
            # the LoopingCall that drives dispatch would stop here
            self.obs.append(('dispatch-raised', type(e).__name__, str(e)[:160]))
        self.collect()
        if getattr(self.fsm, 'archiving', False):
            # the archive completes (FSM._archive_done): back to running
            self.fsm.archiving = False
            self.fsm.active = True
            farm.ARCHIVE = False
            self.obs.append(('archived',))
        if self.mode == 'ample':
            for h in list(farm._workers):
                self._conn_of(h).lose()
        return released, before

    def ev_reply(self, index, outcome, new=None, poll=True, raw_vals=None):
        '''the worker that holds in-flight unit #index answers.
        outcome: 'success' | 'failure' | 'invalid';  new: set of value names
        (sv.val) reported new, None = all'''
        jobid, tgt, runid, _uid = self.inflight.pop(index)
        a = self.eng.alg_of(jobid)
        if poll:
            p = Conn(self)
            p.rev = dawgie.context.git_rev
            p.feed(message.make(typ=message.Type.status, rev=p.rev))
            self.collect()
            if ('abort', id(p)) in self.obs:
                return ('aborted', jobid, tgt, runid)
        vals = None
        if outcome == 'success':
            vals = []
            for s in a['svs']:
                for v in s['vals']:
                    nm = f"{s['n']}.{v['n']}"
                    vals.append((f'{runid}.{tgt}.{jobid}.{nm}',
                                 True if new is None else nm in new))
        if raw_vals is not None and outcome == 'success':
            vals = list(raw_vals)     # the worker's own report, verbatim
        suc = {'success': True, 'failure': False, 'invalid': None}[outcome]
        c = Conn(self)
        c.rev = dawgie.context.git_rev
        c.feed(message.make(
            typ=message.Type.response,
            inc=None if tgt == '__all__' else tgt, jid=jobid, rid=runid,
            suc=suc, tim={'started': 'x'}, val=vals))
        self.collect()
        c.lose()
        return ('replied', jobid, tgt, runid)

    def ev_timer(self):
        '''advance wall clock and reactor to the next pending timer (defer)'''
        import twisted.internet.reactor as reactor
        calls = reactor.getDelayedCalls()
        if not calls:
            return False
        step = max(0.0, min(c.getTime() for c in calls) - reactor.seconds())
        if self.clock is not None:
            self.clock.advance(step)
        reactor.advance(step)
        return True

    def ev_life(self, what, rev=None):
        '''life-cycle changes as the farm sees them'''
        if what == 'inactive':
            self.fsm.active = False
        elif what == 'active':
            self.fsm.active = True
        elif what == 'reload':
            # what FSM.load does when the pipeline (re)loads new software:
            # tell every waiting worker, clear the farm, adopt the revision,
            # rebuild the schedule
            # The body of the real dawgie.pl.state.FSM.load runs (what it does
            # to the farm, in its order); its background step (_pipeline: scan,
            # version tables, schedule.build) is the harness's rebuild.
            import twisted.internet.defer
            import twisted.internet.threads
            import dawgie.pl.state as state
            was = self.fsm.active
            self.fsm.active = False
            self.obs.append(('reload-workers', len(farm._workers)))
            world = self

            class LoadShim:
                _FSM__doctest = False
                transitioning = None

                def _pipeline(self, *a, **k):
                    world.collect()
                    dawgie.context.git_rev = rev
                    world.inflight = []
                    schedule.build(world.factories, ({}, {}, {}), ({}, {}, {}, {}))
                    world.nodes = {}
                    for root in schedule.ae.at:
                        for n in root.iter():
                            world.nodes[n.tag] = n

                def contemplation_trigger(self):
                    return None

            saved = twisted.internet.threads.deferToThread
            twisted.internet.threads.deferToThread = \
                lambda fn, *a, **k: twisted.internet.defer.succeed(fn(*a, **k))
            try:
                state.FSM.load(LoadShim())
            finally:
                twisted.internet.threads.deferToThread = saved
            self.collect()
            self.fsm.active = True
