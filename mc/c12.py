'''C12 - a submitted update takes effect exactly when its priority allows.

State graph of the real state.FSM with the three waiter pollers as REAL threads
under a baton scheduler (each loop iteration is one explorer step, the function
body is one continuous execution), the real fe.api.submit.Process steps,
fe.api.cmd_reset, and a work queue that evolves only through real scheduler /
farm code: schedule.organize (request), schedule.next_job_batch + status
(dispatch), a worker taking the task (farm._busy), farm.Hand._res success /
failure (complete, update -> organize, purge).  Explored breadth first to a
fixpoint within the bounds; every transition re-executes its history.

Oracles: at every call of FSM.update_trigger the condition of the strongest
priority submitted since the last reset holds at that instant (NOW: always,
CREW: no busy worker, DOING: view_doing() empty, TODO: queue empty); the call is
accepted, at most one per reload cycle; a submission while the pipeline is not
active is refused and changes nothing; from every state with an accepted
submission outstanding, letting the work drain and running every thread and
delivery reaches update_trigger (no lost update).
'''

from . import common

LEVEL = 'model_checking'
PRIOS = ('now', 'crew_idle', 'doing_empty', 'todo_empty', 'garbage')


class Driver:
    max_arch = 0

    def __init__(self, max_sub, max_req, max_cycles, prios=PRIOS, max_reset=0):
        self.max_reset = max_reset
        import dawgie
        import dawgie.pl.dag
        import dawgie.pl.farm as farm
        import dawgie.pl.schedule as schedule
        import dawgie.pl.state as state
        import dawgie.pl.logger.chronicle as chronicle
        from . import fsmworld, mini

        self.w = fsmworld.FSMWorld(real_pollers=True)
        self.max_sub, self.max_req, self.max_cycles = max_sub, max_req, max_cycles
        self.prios = prios
        chronicle.append = lambda entry: None
        self.farm, self.schedule, self.state = farm, schedule, state
        drv = [self]
        Driver.current = drv
        F = state.FSM
        if not getattr(F, '_verif_c12', False):
            F._verif_c12 = True
            orig_update = F.update_trigger if 'update_trigger' in F.__dict__ else None

            def reset(slf, _orig=F.reset):
                d = Driver.current[0]
                if getattr(d, 'live', False):
                    d.since_reset = []
                    d.cycle_updates = 0
                return _orig(slf)

            F.reset = reset

    def install_update_spy(self):
        '''transitions adds update_trigger to the *instance*; wrap it there'''
        f = self.w.fsm
        if getattr(f, '_verif_spy', False):
            return
        f._verif_spy = True
        real = f.update_trigger

        def update_trigger(*a, **k):
            d = Driver.current[0]
            d.calls.append({'state': f.state, 'work': d.work(), 'prio': f.priority,
                            'cond': d.w.condition(f.priority)})
            return real(*a, **k)

        f.update_trigger = update_trigger

    # ---- work through the real scheduler
    def reset(self):
        import dawgie
        import dawgie.pl.dag
        import dawgie.util.fifo
        from dawgie.pl.jobinfo import State as JobState
        from . import mini

        self.live = False
        w = self.w
        w.reset()
        self.install_update_spy()

        def task(*a, **k):
            return None

        n = dawgie.pl.dag.Node('t.a', attrib={
            'alg': mini.Alg('a'), 'do': set(), 'doing': set(), 'factory': task,
            'todo': dawgie.util.fifo.Unique(), 'status': JobState.initial, 'level': 0,
            'ancestry': set(), 'feedback': set(), 'parents': set()})
        self.node = n

        class AE:
            at = [n]
            feedbacks = {}

        self.schedule.ae = AE()
        self.schedule.promote.ae = self.schedule.ae
        self.sub = None
        self.nsub = self.nreq = self.cycles = 0
        self.nreset = 0
        self.narch = 0
        self.reset_refused = None
        self.booted = False
        self.calls = []
        self.since_reset = []
        self.cycle_updates = 0
        self.run_id = 7
        self.live = True

    def work(self):
        n = self.node
        return (tuple(self.farm._busy), tuple(x.tag for x in self.schedule.que),
                tuple(n.get('todo')), tuple(sorted(n.get('doing'))), n.get('status').name)

    flavor = 'api'

    def make_process(self, prio):
        import dawgie.fe.api.submit as api_submit
        import dawgie.fe.submit as old_submit
        from . import fsmworld
        p = object.__new__(api_submit.Process if self.flavor == 'api' else old_submit.Process)
        msg = 'unspecified' if self.flavor == 'api' else {'alert_status': 'danger', 'alert_message': 'unspecified'}
        for k, v in (('changeset', 'abc123'), ('clear', lambda: None), ('failed', False),
                     ('msg', msg), ('request', fsmworld.FakeRequest()),
                     ('repo', '/nowhere'), ('submission', prio)):
            setattr(p, '_Process__' + k, v)
        return p

    def enabled(self):
        w = self.w
        n = self.node
        if not self.booted:
            return [('boot',)]
        evs = []
        for t in w.pending():
            evs.append(('run', t.tid))
        for t in w.undelivered():
            evs.append(('deliver', t.tid))
        if self.sub is None and self.nsub < self.max_sub and self.cycles < self.max_cycles:
            for prio in self.prios:
                evs.append(('s1', prio))
        if self.sub is not None:
            evs.append(('s3',))
            # the poster has closed its connection without reading the answer
            evs.append(('s3', 'client-gone'))
        if self.narch < self.max_arch and w.fsm.state == 'running' and w.fsm.transitioning.name == 'active':
            # new data on an idle farm: farm.dispatch takes the pipeline into the
            # archive and back (its background step is an explorer-owned thread)
            evs.append(('archive',))
        if self.nreset < self.max_reset:
            # the operator's POST /api/cmd/reset, at any moment
            evs.append(('cmd-reset',))
        # the work queue
        if self.nreq < self.max_req:
            evs.append(('req',))
        if n.get('todo') and not n.get('doing'):
            evs.append(('disp',))
        if n.get('doing') and not self.farm._busy:
            evs.append(('hand',))
        if self.farm._busy:
            evs.append(('ok',))
            evs.append(('fail',))
        return evs

    def apply(self, ev):
        import dawgie.pl.message as message
        from dawgie.pl.jobinfo import State as JobState
        w, f, n = self.w, self.w.fsm, self.node
        kind = ev[0]
        ncalls = len(self.calls)
        try:
            if kind == 'boot':
                self.booted = True
                f.starting_trigger()
            elif kind == 'run':
                return w.run_thread(w.threads[ev[1]])
            elif kind == 'deliver':
                return w.deliver(w.threads[ev[1]])
            elif kind == 's1':
                self.nsub += 1
                p = self.make_process(ev[1])
                before = (f.state, f.transitioning.name, f.priority, self.work())
                r = p.step_1(None)
                if r is None:
                    self.sub = (p, ev[1])
                else:
                    self.refused = (before, (f.state, f.transitioning.name, f.priority, self.work()))
            elif kind == 's3':
                p, prio = self.sub
                self.sub = None
                import dawgie.tools.submit as ts
                try:
                    pr = ts.Priority(prio)
                except ValueError:
                    pr = ts.Priority.TODO
                self.since_reset.append(pr)
                if len(ev) > 1:
                    p._Process__request.gone = True
                p.step_3(None)
            elif kind == 'archive':
                self.narch += 1
                f.archiving_trigger()
            elif kind == 'cmd-reset':
                import json
                import dawgie.fe.api
                import dawgie.tools.submit as ts
                self.nreset += 1
                before = (f.state, f.transitioning.name, f.priority, self.work(),
                          f.waiting_on_crew(), f.waiting_on_doing(), f.waiting_on_todo())
                reply = json.loads(dawgie.fe.api.cmd_reset(None))
                if reply.get('status') == 'success':
                    self.since_reset.append(ts.Priority.NOW)   # a reset is "reload now"
                else:
                    self.reset_refused = (before, (f.state, f.transitioning.name, f.priority, self.work(),
                                                   f.waiting_on_crew(), f.waiting_on_doing(), f.waiting_on_todo()))
            elif kind == 'req':
                self.nreq += 1
                self.schedule.organize({'t.a'}, targets={'A'}, event='command-run requested by user')
            elif kind == 'disp':
                batch = self.schedule.next_job_batch()
                for j in batch:
                    j.set('status', JobState.running)
                    j.get('do').clear()
            elif kind == 'hand':
                import datetime
                self.farm._busy.append('t.a[A]')
                self.farm._time['t.a[A]'] = datetime.datetime.now()
            elif kind in ('ok', 'fail'):
                self.farm.Hand._res(message.make(
                    typ=message.Type.response, inc='A', jid='t.a', rid=self.run_id,
                    suc=(kind == 'ok'), tim={'started': 'x'},
                    val=[(f'{self.run_id}.A.t.a.s.x', True)] if kind == 'ok' else None))
        except Exception as e:  # noqa
            return e
        finally:
            if f.state == 'running' and self.calls[ncalls:] and False:
                pass
        return None

    def canon(self):
        w = self.w
        return (w.snapshot(), self.booted, None if self.sub is None else self.sub[1],
                self.nsub, self.nreq, self.nreset, self.narch, self.cycles, self.work(),
                tuple(p.name for p in self.since_reset), self.cycle_updates)


def strongest(prios):
    '''independent of tools.submit.Priority.max: NOW > CREW > DOING > TODO'''
    import dawgie.tools.submit as ts
    order = [ts.Priority.NOW, ts.Priority.CREW, ts.Priority.DOING, ts.Priority.TODO]
    for p in order:
        if p in prios:
            return p
    return None


def check(dr, ev, exc, ncalls_before, report):
    import dawgie.tools.submit as ts
    w, f = dr.w, dr.w.fsm
    new_calls = dr.calls[ncalls_before:]
    for c in new_calls:
        want = strongest(dr.since_reset) if dr.since_reset else None
        how = 'reset' if ev[0] == 'cmd-reset' else ev[0] if ev[0] not in ('run', 'deliver') \
            else f'{ev[0]}:{w.threads[ev[1]].kind}'
        prio = c['prio'].name if c['prio'] else 'none'
        if c['state'] != 'running' or not isinstance(exc, type(None)) and type(exc).__name__ == 'MachineError':
            report(f'C12/update-rejected/in-{c["state"]}/{prio}/{how}',
                   f'update_trigger called in state {c["state"]} (event {ev}): the update is lost')
            continue
        dr.cycle_updates += 1
        if dr.cycle_updates > 1:
            report(f'C12/update-triggered-twice/{prio}', f'second update_trigger in one reload cycle (event {ev})')
        if ev[0] == 'cmd-reset':
            continue    # "now": no condition to hold, FSM.priority is not involved
        if want is not None and c['prio'] != want:
            report(f'C12/priority-not-the-strongest/{prio}-vs-{want.name}',
                   f'update_trigger under priority {prio}, strongest submitted is {want.name}')
        if not c['cond']:
            report(f'C12/condition-false-at-trigger/{prio}/{how}',
                   f'update_trigger fired (event {ev}) while the {prio} condition does not hold: work={c["work"]}')
    if exc is not None and not new_calls:
        where = ev[0] if ev[0] not in ('run', 'deliver') else f'{ev[0]}:{w.threads[ev[1]].kind}'
        report(f'C12/step-raises/{type(exc).__name__}/{where}', f'event {ev} raised {exc!r}')
    if getattr(dr, 'reset_refused', None):
        before, after = dr.reset_refused
        dr.reset_refused = None
        if before != after:
            report('C12/refused-reset-has-side-effects', f'{before} -> {after}')
        if before[0] == 'running' and before[1] == 'active':
            report('C12/reset-refused-while-active', f'cmd_reset refused in {before}')
    if getattr(dr, 'refused', None):
        before, after = dr.refused
        dr.refused = None
        if before != after:
            report('C12/refused-submission-has-side-effects', f'{before} -> {after}')
        if before[0] == 'running' and before[1] == 'active':
            report('C12/submission-refused-while-active', f'step_1 refused in {before}')
    if ev[0] == 's1' and dr.sub is not None:
        pass
    # count reload cycles: a reset() marks the end of one
    if f.state == 'loading' and ev[0] in ('run', 'deliver') and dr.since_reset == [] and dr.cycle_updates == 0:
        pass


def liveness(dr, report):
    '''outstanding accepted submission: drain the work, run every thread and
    delivery (bounded): update_trigger must be reached'''
    w, f, n = dr.w, dr.w.fsm, dr.node
    if not dr.since_reset or dr.cycle_updates or dr.sub is not None:
        return False
    if f.state != 'running':
        return False
    prio = strongest(dr.since_reset)
    n0 = len(dr.calls)
    for _ in range(60):
        progressed = False
        # drain work first (condition becomes true and stays true)
        if n.get('todo') and not n.get('doing'):
            dr.apply(('disp',))
            progressed = True
        elif n.get('doing') and not dr.farm._busy:
            dr.apply(('hand',))
            progressed = True
        elif dr.farm._busy:
            dr.apply(('ok',))
            progressed = True
        for t in list(w.pending()):
            if t.poller:
                w.run_thread(t)
                progressed = True
        for t in list(w.undelivered()):
            if t.poller:
                w.deliver(t)
                progressed = True
        if len(dr.calls) > n0:
            return True
        if not progressed:
            break
    report(f'C12/update-never-triggered/{prio.name}',
           f'submission with priority {prio.name} accepted, work drained, every waiter run: update_trigger never called '
           f'(thread handles crew/doing/todo = {f.crew_thread is not None}/{f.doing_thread is not None}/'
           f'{f.todo_thread is not None}, waiting flags = {f.waiting_on_crew()}/{f.waiting_on_doing()}/{f.waiting_on_todo()})')
    return True


def job(args):
    tier, seed, max_sub, max_req, max_cycles, prios = args[:6]
    max_reset = args[6] if len(args) > 6 else 0
    from . import explore
    dr = Driver(max_sub, max_req, max_cycles, prios, max_reset)
    dr.flavor = args[7] if len(args) > 7 else 'api'
    dr.max_arch = args[8] if len(args) > 8 else 0

    def build(hist, report=None):
        dr.reset()
        for i, ev in enumerate(hist):
            n0 = len(dr.calls)
            was_loading = dr.w.fsm.state
            exc = dr.apply(ev)
            check(dr, ev, exc, n0, report if (report is not None and i == len(hist) - 1) else (lambda s, t: None))
            if was_loading != 'loading' and dr.w.fsm.state == 'loading' and dr.booted and i > 0:
                dr.cycles += 1
        return dr.canon()

    def expand(h):
        found = []

        def rep(hh):
            return lambda sig, what: found.append((sig, what, [list(e) for e in hh]))

        build(h)
        evs = dr.enabled()
        liveness(dr, rep(h))
        succ = []
        for ev in evs:
            succ.append((build(h + [ev], rep(h + [ev])), ev))
        return succ, found

    k0 = build([])
    res = explore.replay_bfs(expand, k0, cap=120000 if tier == 'quick' else 1500000)
    viol = {}
    for sig, what, hist in res['violations']:
        v = viol.setdefault(sig, {'what': what, 'replay': {'history': hist, 'bounds': [max_sub, max_req, max_cycles], 'max_reset': max_reset, 'flavor': dr.flavor, 'max_arch': dr.max_arch,
                                                          'prios': list(prios)}, 'count': 0})
        v['count'] += 1
        if len(hist) < len(v['replay']['history']):
            v['what'], v['replay']['history'] = what, hist
    for t in dr.w.threads:
        t.kill()
    return {'states': res['states'], 'transitions': res['transitions'], 'violations': viol,
            'bounds': [max_sub, max_req, max_cycles, max_reset], 'capped': res['capped'],
            'digest': common.digest(sorted(res['keys']))}


def run(ctx):
    if ctx.quick():
        jobs = [(ctx.tier, ctx.seed, 2, 1, 2, PRIOS),
                # more queue traffic (the queue list is re-bound by every organize), one submission
                (ctx.tier, ctx.seed, 1, 3, 1, ('todo_empty', 'doing_empty', 'crew_idle')),
                # the operator's reset command at any moment next to two submissions
                (ctx.tier, ctx.seed, 2, 1, 1, ('crew_idle', 'todo_empty'), 1),
                # an archive (pipeline leaves running and comes back) at any moment while a waiter polls
                (ctx.tier, ctx.seed, 1, 1, 1, ('crew_idle', 'todo_empty', 'doing_empty'), 0, 'api', 1),
                # the legacy submit end point (fe.submit.Process)
                (ctx.tier, ctx.seed, 2, 1, 1, ('now', 'crew_idle', 'todo_empty'), 0, 'old')]
    else:
        jobs = [(ctx.tier, ctx.seed, 3, 1, 1, PRIOS), (ctx.tier, ctx.seed, 2, 2, 2, PRIOS),
                (ctx.tier, ctx.seed, 2, 1, 1, PRIOS, 1), (ctx.tier, ctx.seed, 2, 1, 2, PRIOS, 0, 'old')]
    states = transitions = 0
    per = []
    for j in jobs:
        r = job(j)
        states += r['states']
        transitions += r['transitions']
        for sig, v in r['violations'].items():
            mine = ctx.violations.get(sig)
            if mine is None:
                ctx.violations[sig] = v
            else:
                mine['count'] += v['count']
        if r['capped']:
            ctx.cap(f'state cap reached for bounds {r["bounds"]}')
        per.append({k: r[k] for k in ('states', 'transitions', 'bounds', 'digest')})
        ctx.sample({k: r[k] for k in ('states', 'transitions', 'bounds')})
    ctx.assumptions += [
        'bounds per history: submissions / run requests / reload cycles as listed',
        'poller threads are preempted only at time.sleep (one loop iteration per step), at start/end and at Deferred '
        'delivery; byte-code level races inside one condition evaluation are not explored',
        'one algorithm, one target; the queue evolves only through real scheduler/farm calls']
    cov = {'states': states, 'transitions': transitions, 'traces_validated_against_impl': transitions,
           'explanation': 'every transition re-executes its history on the real FSM with real poller threads; in every '
                          'state with an outstanding submission the drain-and-run liveness probe is executed',
           'per_configuration': per}
    return common.finish(ctx, cov, exhaustive=True)


def replay(data):
    r = data['replay']
    dr = Driver(*r['bounds'][:3], tuple(r.get('prios', PRIOS)), r.get('max_reset', 0))
    dr.flavor = r.get('flavor', 'api')
    dr.max_arch = r.get('max_arch', 0)
    dr.reset()
    hits = []
    for ev in [tuple(e) for e in r['history']]:
        n0 = len(dr.calls)
        was = dr.w.fsm.state
        exc = dr.apply(ev)
        check(dr, ev, exc, n0, lambda s, t: hits.append(s) or print('  !!', s, t))
        if was != 'loading' and dr.w.fsm.state == 'loading' and len(hits) >= 0 and dr.booted and ev != ('boot',):
            dr.cycles += 1
        f = dr.w.fsm
        print('event', ev, '->', f.state, f.transitioning.name, 'prio', f.priority, 'work', dr.work(),
              'threads', [(t.kind, t.done, t.delivered) for t in dr.w.threads], 'exc', repr(exc))
    liveness(dr, lambda s, t: hits.append(s) or print('  !!', s, t))
    for t in dr.w.threads:
        t.kill()
    bad = data['signature'] in hits
    print('VIOLATES' if bad else 'ok')
    return 1 if bad else 0
