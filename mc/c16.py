'''C16 - the compliance gate accepts exactly the engines that follow the rules.

Generated packages (real source on disk, both factory styles):
  accept: package under test offering every non-empty subset of the factory
          kinds {task, analysis, regress, events} (15 mixes, events-only
          included) x 3 reference-granularity patterns; plus every DAG engine
          on <= 2 (thorough 3) algorithms with rule-conforming references.
          Each must be accepted by tools.compliant._verify, and then
          dag.Construct + schedule.build + one next_job_batch must not raise.
  reject: each of those mixes with exactly one rule broken at every applicable
          position (~30 kinds of breakage x algorithm/factory positions).
The exit status of `python -m dawgie.tools.compliant` is compared with the
in-process verdict for one representative per breakage kind and per mix.
'''

import itertools
import os
import subprocess
import sys

from . import common, aegen

LEVEL = 'exploration'

A = aegen.alg
SV2 = lambda: [aegen.sv('s', ('x', 'y'))]  # noqa: E731

ALG_BREAKS = ['alg-base', 'no-name', 'no-deps', 'dot-alg', 'no-sv', 'sv-base',
              'val-base', 'sv-no-name', 'dot-sv', 'dot-val', 'sv-empty',
              'unpicklable', 'val-ctor-arg']
REF_BREAKS = ['ref-factory', 'ref-impl', 'ref-item', 'ref-feat',
              'ref-missing-alg', 'ref-missing-sv', 'ref-missing-val',
              'ref-not-a-ref']
MOM_BREAKS = ['moment-two', 'moment-dom-str', 'moment-no-time', 'moment-day-str']
FAC_BREAKS = ['fac-arity', 'fac-default', 'fac-annot', 'bot-base']


def mix_engine(kinds, pat, style):
    '''upstream package tu + package under test tp offering `kinds`'''
    ev = 'events' in kinds
    refs = {0: ('tu', 'u', None, None), 1: ('tu', 'u', 's', None), 2: ('tu', 'u', 's', 'y')}
    algs = [A('tu', 'u', svs=SV2())]
    if 'task' in kinds:
        algs.append(A('tp', 'a', 'task', inputs=[refs[pat]], svs=SV2(),
                      ev=[{'boot': True}] if ev else ()))
    if 'analysis' in kinds:
        algs.append(A('tp', 'z', 'analysis', inputs=[refs[max(1, pat)]], svs=SV2(),
                      ev=[{'dow': 0 if pat == 2 else 2, 'time': [1, 2, 3]}] if ev else ()))   # 0 = Monday
    if 'regress' in kinds:
        algs.append(A('tp', 'r', 'regress', inputs=[refs[max(1, (pat + 1) % 3)]], svs=SV2(),
                      ev=[{'dom': 5, 'time': [4, 5, 6]}] if ev else ()))
    d = {'style': style, 'algs': algs}
    if kinds == ('events',):
        if style != 'legacy':
            return None
        d['foreign_events'] = {'tp': [['tu', 'u', 'task', {'boot': True}]]}
    return d


def all_mixes():
    ks = ('task', 'analysis', 'regress', 'events')
    for r in range(1, 5):
        for kinds in itertools.combinations(ks, r):
            yield kinds


def valid_dags(n):
    '''dag_engines with references that follow the rules (SV/V level refs for
    analyzers and regressions)'''
    for d in aegen.dag_engines(n, feedback=(False,), patterns=(0, 1, 2)):
        for a in d['algs']:
            if a['k'] != 'task':
                for r in a['in']:
                    if r[2] is None:
                        r[2] = 's'
        yield d


def verdict(desc, root, modules=None):
    '''in-process verdict of the gate for the engine (all its packages)'''
    import dawgie.tools.compliant as compliant

    eng = aegen.Engine(desc)
    try:
        eng.load(root)
    except Exception as e:  # noqa
        return False, f'scan raised {e!r}', eng
    try:
        # the list of packages the gate looks at is what its own scan reports
        mods = modules or compliant._scan()
    except Exception as e:  # noqa
        return False, f'_scan raised {e!r}', eng
    eng.seen_by_gate = list(mods)
    try:
        ok = compliant._verify(mods, True, False)
    except Exception as e:  # noqa
        return False, f'_verify raised {e!r}', eng
    return bool(ok), '', eng


def per_rule(desc, root):
    import dawgie.tools.compliant as compliant
    eng = aegen.Engine(desc)
    eng.load(root)
    out = {}
    for t in eng.tasks:
        for r in compliant._get_rules():
            try:
                out[f'{t}:{r}'] = getattr(compliant, r)(f'{eng.pkg}.{t}')
            except Exception as e:  # noqa
                out[f'{t}:{r}'] = f'{type(e).__name__}: {e}'
    return {k: v for k, v in out.items() if v is not True}


def schedulable(desc, root):
    import dawgie
    import dawgie.pl.dag
    import dawgie.pl.schedule as schedule
    import dawgie.db
    from . import pipeworld

    pipeworld.install_seams()
    eng = aegen.Engine(desc)
    facs = eng.load(root)
    saved = dawgie.db.targets
    dawgie.db.targets = lambda *a, **k: ['A']
    try:
        schedule.que = []
        latest = __import__('dawgie.pl.version').pl.version.current(
            facs[dawgie.Factories.analysis] + facs[dawgie.Factories.regress]
            + facs[dawgie.Factories.task])
        schedule.build(facs, latest, ({}, {}, {}, {}))
        tags = set()
        for r in schedule.ae.at:
            for n in r.iter():
                tags.add(n.tag)
        batch = schedule.next_job_batch()
        return tags, [j.tag for j in batch]
    finally:
        dawgie.db.targets = saved
        schedule.que = []


def negatives(kinds, desc):
    '''(break spec) for every applicable position'''
    eng = aegen.Engine(desc)
    mine = [a for a in desc['algs'] if a['t'] == 'tp']
    for a in mine:
        for b in ALG_BREAKS:
            if desc['style'] in ('auto', 'custom') and b == 'alg-base':
                continue
            yield {'what': b, 't': 'tp', 'n': a['n']}
        if a['in']:
            for b in REF_BREAKS:
                if b == 'ref-item' and a['in'][0][2] is None:
                    pass  # SV_REF constructed regardless
                yield {'what': b, 't': 'tp', 'n': a['n']}
        if a['ev']:
            for b in MOM_BREAKS:
                yield {'what': b, 't': 'tp', 'n': a['n']}
    if desc['style'] == 'legacy':
        for f in ('task', 'analysis', 'regress'):
            if f in kinds:
                for b in FAC_BREAKS:
                    yield {'what': b, 't': 'tp', 'f': f}


def work(args):
    tier, seed, shard, nshards = args
    ctx = common.Ctx('C16', tier, seed, LEVEL)
    root = common.scratch_root()
    n = -1
    verdicts = set()
    cli = []
    for kinds in all_mixes():
        for style in ('legacy', 'auto', 'custom'):
            for pat in (0, 1, 2):
                n += 1
                if n % nshards != shard:
                    continue
                desc = mix_engine(kinds, pat, style)
                if desc is None:
                    continue
                if style != 'legacy' and pat == 2:
                    # the same package beginning with a class the scanner is told
                    # to ignore (a template / an abstract base): still compliant
                    desc = dict(desc, ignored='template' if n % 2 else 'abstract')
                ctx.count('accept_cases')
                ok, why, eng = verdict(desc, root)
                label = '+'.join(kinds)
                verdicts.add((label, style, 'valid', ok))
                if not ok:
                    ctx.violation(
                        f'C16/valid-rejected/{label}/{style}',
                        f'package offering {label} ({style} style) rejected: '
                        f'{why or per_rule(desc, root)}', {'desc': desc})
                else:
                    want = sorted(f'{eng.pkg}.{t}' for t in eng.tasks)
                    if sorted(eng.seen_by_gate) != want:
                        ctx.violation(f'C16/gate-does-not-see-package/{label}/{style}',
                                      f'the gate checked {sorted(eng.seen_by_gate)}, the engine has {want}',
                                      {'desc': desc})
                    try:
                        tags, _b = schedulable(desc, root)
                        if tags != set(eng.tags()):
                            ctx.violation(f'C16/accepted-but-graph-differs/{label}/{style}',
                                          f'graph has {sorted(tags)}, engine {eng.tags()}',
                                          {'desc': desc})
                    except Exception as e:  # noqa
                        ctx.violation(f'C16/accepted-not-schedulable/{label}/{style}/{type(e).__name__}',
                                      f'accepted package cannot be scheduled: {e!r}', {'desc': desc})
                if pat == 0:
                    cli.append((desc, ok, f'valid:{label}:{style}'))
                if pat != 1:
                    continue
                for brk in negatives(kinds, desc):
                    d = dict(desc)
                    d['break'] = brk
                    ctx.count('reject_cases')
                    ok2, _why, _e = verdict(d, root, None)
                    where = brk.get('n') or brk.get('f')
                    verdicts.add((brk['what'], style, 'broken', ok2))
                    if ok2:
                        ctx.violation(
                            f'C16/broken-accepted/{brk["what"]}/{style}',
                            f'package offering {label} with {brk["what"]} at {where} accepted',
                            {'desc': d})
                    if kinds in (('task',), ('analysis',), ('regress',), ('task', 'events'),
                                 ('analysis', 'events')) and where in ('a', 'z', 'r', 'task', 'analysis', 'regress'):
                        cli.append((d, ok2, f'{brk["what"]}:{label}:{style}'))
                    ctx.sample({'kinds': label, 'style': style, 'break': brk})
    out = ctx.export()
    out['verdicts'] = [list(v) for v in verdicts]
    out['cli'] = cli
    return out


def work_dag(args):
    tier, seed, shard, nshards, n = args
    ctx = common.Ctx('C16', tier, seed, LEVEL)
    root = common.scratch_root()
    for i, desc in enumerate(valid_dags(n)):
        if i % nshards != shard:
            continue
        ctx.count('accept_cases')
        ok, why, eng = verdict(desc, root)
        kinds = '+'.join(sorted({a['k'] for a in desc['algs']}))
        if not ok:
            ctx.violation(f'C16/valid-rejected/dag/{kinds}/{desc["style"]}',
                          f'valid engine rejected: {why or per_rule(desc, root)}', {'desc': desc})
            continue
        try:
            schedulable(desc, root)
        except Exception as e:  # noqa
            ctx.violation(f'C16/accepted-not-schedulable/dag/{type(e).__name__}',
                          f'{e!r}', {'desc': desc})
    return ctx.export()


def cli_verdict(item):
    desc, inproc, label = item
    root = common.scratch_root()
    eng = aegen.Engine(desc)
    base = eng.write(root)
    env = dict(os.environ)
    # the engine's own directory is NOT put on the path: finding it from
    # --ae-dir / --ae-pkg is the tool's business
    env['PYTHONPATH'] = os.pathsep.join([common.PYROOT, common.VERIF])
    p = subprocess.run(
        [sys.executable, '-m', 'dawgie.tools.compliant', f'--ae-dir={base}',
         f'--ae-pkg={eng.pkg}', '--silent'],
        env=env, capture_output=True, text=True, timeout=300, cwd='/')
    return label, inproc, p.returncode == 0, (p.stdout + p.stderr)[-300:]


def run(ctx):
    nsh = 30
    verdicts = set()
    cli = []
    for r in common.pmap(work, [(ctx.tier, ctx.seed, s, nsh) for s in range(nsh)]):
        ctx.merge(r)
        verdicts.update(tuple(v) for v in r['verdicts'])
        cli.extend(r['cli'])
    sizes = [1, 2] if ctx.quick() else [1, 2, 3]
    jobs = []
    for n in sizes:
        k = 1 if n == 1 else (16 if n == 2 else 64)
        jobs += [(ctx.tier, ctx.seed, s, k, n) for s in range(k)]
    for r in common.pmap(work_dag, jobs):
        ctx.merge(r)
    # CLI agreement: one representative per breakage kind / per valid mix
    seen, reps = set(), []
    for desc, ok, label in cli:
        key = label.split(':')[0] if not label.startswith('valid') else label
        if ctx.quick() and not label.startswith('valid'):
            key = label.split(':')[0]
        if key in seen:
            continue
        seen.add(key)
        reps.append((desc, ok, label))
    # the same under a base package with two components (what the submit gate builds)
    for desc, ok, label in list(reps):
        if label.startswith('valid:task:') or label.startswith('dot-alg:') or label.startswith('no-sv:'):
            d = dict(desc)
            d['nested'] = True
            reps.append((d, ok, label + ':nested-base-package'))
    for label, inproc, ext, tail in common.pmap(cli_verdict, reps, procs=16):
        ctx.count('cli_runs')
        if inproc != ext:
            ctx.violation(f'C16/cli-disagrees/{label.split(":")[0]}',
                          f'{label}: in-process verdict {inproc}, exit status says {ext}: {tail}',
                          {'label': label})
    c = ctx.counters
    ctx.assumptions += [
        'every exception inside a rule counts as rejection (that is what the gate does)',
        'the gate is evaluated per package as tools.compliant._verify does; git/merge steps of tools.submit are not exercised here']
    cov = {
        'evaluations': c.get('accept_cases', 0) + c.get('reject_cases', 0) + c.get('cli_runs', 0),
        'distinct_nontrivial': len(verdicts),
        'rule': 'accept: 15 factory mixes x 3 styles (deprecated bots, self-registering, self-registering with hand-written factories) x 3 reference patterns + every rule-conforming DAG engine on '
                '<=2 (thorough 3) algorithms; reject: every mix (pattern 1) x every applicable single breakage '
                '(13 algorithm-level, 8 reference-level, 4 moment-level, 4 factory-level kinds) at every position; '
                'distinct_nontrivial = distinct (breakage kind | mix, style, verdict) triples observed',
    }
    return common.finish(ctx, cov, exhaustive=True)


def replay(data):
    r = data['replay']
    if 'desc' not in r:
        print(r)
        return 0
    root = common.scratch_root()
    ok, why, eng = verdict(r['desc'], root)
    print('engine', [(a['t'], a['n'], a['k']) for a in r['desc']['algs']], 'style', r['desc']['style'],
          'break', r['desc'].get('break'))
    print('verdict accepted =', ok, why)
    print('rules not True:', per_rule(r['desc'], root))
    expect_accept = 'break' not in r['desc']
    bad = ok != expect_accept
    print('VIOLATES' if bad else 'ok')
    return 1 if bad else 0
