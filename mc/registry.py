'''what is claimed (CHECKS) and what is not (NOT_APPLICABLE); bin/mkmanifest
turns this into MANIFEST.json'''

CHECKS = {
    'C17': {
        'level': 'exploration',
        'design_ref': 'DESIGN.md section 3 (C17)',
        'technique': 'bounded exhaustive enumeration of stores x queries x pages against a brute-force reference',
        'text': 'Every subset of an 8-key universe is written into a real shelve store through the '
        'worker wire path; on each store every combination of constraints from the menus, every '
        '(index, limit) page, page concatenation and every facet is compared with a brute-force '
        'filter over the inserted keys; all 65 640 run-id expressions of <= 3 terms are checked for '
        'denotation-preserving normalisation (and through find() on selected stores). Complete '
        'enumeration of that finite space, no sampling.',
        'note': 'shelve back end only (db/post/search.py needs a PostgreSQL server that does not exist '
        'in the sandbox); range a:b is half-open as Range.__contains__ defines; run id -1 excluded; '
        'one version per name so that state-vector level names are unique.',
    },
}

_PENDING = 'check not built yet in this session (planned in DESIGN.md); will move to checks when it exists'
NOT_APPLICABLE = {
    pid: _PENDING
    for pid in [f'C{n:02d}' for n in range(1, 21)]
    if pid not in CHECKS
}
