'''what is claimed (CHECKS) and what is not (NOT_APPLICABLE); bin/mkmanifest
turns this into MANIFEST.json'''

CHECKS = {
    'C17': {
        'level': 'exploration',
        'design_ref': 'DESIGN.md section 3 (C17)',
        'technique': 'bounded exhaustive enumeration of stores x queries x pages against a brute-force reference',
        'text': 'Every subset of an 8-key universe is written into a real shelve store through the '
        'worker wire path; on each store every combination of constraints from the menus, every '
        '(index, limit) page, page concatenation and every facet is compared with a brute-force '
        'filter over the inserted keys; all 65 640 run-id expressions of <= 3 terms are checked for '
        'denotation-preserving normalisation (and through find() on selected stores). The front-end entry '
        'points fe.api.facet.* and fe.api.database.search are called with URL-style parameters on every store. Complete '
        'enumeration of that finite space, no sampling. Front-end pages: index only, limit only, index beyond the end, each judged against the end point\'s own unpaged list.',
        'note': 'shelve back end only (db/post/search.py needs a PostgreSQL server that does not exist '
        'in the sandbox); range a:b is half-open as Range.__contains__ defines; run id -1 excluded; '
        'one version per name so that state-vector level names are unique.',
    },
}

_SCHED_NOTE = ('abstract tier: FSM answers, db.targets/db.next and the worker processes are harness-owned '
               'environment (chronicle.append is the real function on a scratch journal that is read back); '
               'workers reply only to tasks they were sent; '
               'engines: 10 canonical DAG shapes (chain, fork, join, diamond, independent pair, '
               'task->analysis(->task), regression leaf) x targets {A} and {A,B}; <= R external run '
               'requests per history (R=2 quick, 3 thorough); snapshot/restore validated by full replays')
CHECKS.update({
    'C01': {
        'level': 'model_checking', 'design_ref': 'DESIGN.md section 2 (C01)',
        'technique': 'explicit-state exploration of the real scheduler+farm to a fixpoint, invariant at every release',
        'text': 'State graph of the real pl.schedule / pl.farm / pl.dag code per engine, explored breadth first to a '
        'fixpoint under the request budget; at every release (return of next_job_batch and every task message '
        'built by farm._put) the upstream closure computed by the generator must have nothing pending or '
        'executing for the target, where executing is the harness ground truth decoded from worker transports. Engines include an input shared by an analyzer and a regression. Also lopsided diamonds (an ancestor on the same level as its descendant; both mirror images, both declaration orders) and a join of two depth-3 chains.',
        'note': _SCHED_NOTE,
    },
    'C03': {
        'level': 'model_checking', 'design_ref': 'DESIGN.md section 2 (C03)',
        'technique': 'explicit-state exploration of scheduler+farm with explicit workers, conservation and exactly-once monitors',
        'text': 'Same state graph as C01 plus an explicit-farm variant (0-2 workers registering and disconnecting in '
        'every order). Every state: no two executions of one (algorithm,target) released and unanswered; every '
        'released unit is in exactly one of queue / handed to one worker; every reply is recorded exactly once '
        'and its report propagated exactly once; crew() busy list equals the units in flight. Reload jobs: the '
        'pipeline reloads (notify_all, farm.clear, schedule.build) at any moment with tasks queued for want of a worker. Every unit a dispatch moves to doing is accounted for (farm batch, cluster queue or a worker); jobs with one db.next() outage. Jobs with target names where one begins the other (A, AB), both executing at once.',
        'note': _SCHED_NOTE,
    },
    'C04': {
        'level': 'model_checking', 'design_ref': 'DESIGN.md section 2 (C04)',
        'technique': 'explicit-state exploration + SCC / sink analysis of the internal-event subgraph for quiescence',
        'text': 'Same state graph incl. run requests with an empty target list. Invariant: whenever nothing is pending '
        'or in flight the queue, to-do, doing and crew views are empty; step: after a dispatch no unit with idle '
        'upstream stays pending; liveness on the explored graph restricted to dispatch/reply events: no cycle '
        '(Tarjan SCC) and every sink is quiescent. The last clause (every waiter on "queue empty" / "nothing '
        'executing" is eventually satisfied) is decided with the real waiter threads by the drain-and-run probe of C12. '
        'Fault event: a dispatch during which the first db.next() draw raises (<=1 quick, <=2 thorough per history). Second fault event: a reply arriving while the history journal cannot be written. After a fault-free dispatch the farm holds no released job it built no task for; timer jobs on a data base without targets and with two events of one algorithm.',
        'note': _SCHED_NOTE,
    },
    'C05': {
        'level': 'model_checking', 'design_ref': 'DESIGN.md section 2 (C05)',
        'technique': 'explicit-state exploration, frame-condition oracle on every failure/invalid reply transition; exhaustive run-ending enumeration through the real worker',
        'text': 'Same state graph; on every failure / invalid reply transition in every reachable scheduler state the '
        'todo/doing/do sets of all nodes are compared before and after Hand._res: the target is withdrawn from '
        'every transitive dependent, nothing else changes, nothing grows, schedule.update/organize is not '
        'reached, exactly one history record with the right status. Worker tier: the real worker.cluster.execute + '
        'worker.Context + generated task package against the real farm over an in-memory socket, the unit ending in '
        'each of 10 ways (incl. SystemExit / KeyboardInterrupt / bare BaseException) x 3 scheduler scenarios x 2 engines. A node with pending or executing work stays in the work queue.',
        'note': _SCHED_NOTE,
    },
    'C18': {
        'level': 'exploration', 'design_ref': 'DESIGN.md section 3 (C18)',
        'technique': 'bounded exhaustive enumeration of journals x windows x limits under a virtual clock against a brute-force filter',
        'text': 'Every multiset of <=3 (thorough 4) completion instants from a 14-point boundary menu x every window '
        '(after,before) in (menu+None)^2 x limit {None,1,2} through the real chronicle.append/find; every sequence '
        'of <=3 appends over 18 entry kinds through the real schedule.complete with journal files re-read after '
        'each, and every sequence of <=2 over 48 kinds varying the scheduler state at reply time (target in doing / '
        'withdrawn / node dequeued / __all__) and run id 0; the same windows through fe.api.schedule.succeeded/failed. Window bounds are also written with +02:00 and -07:00 offsets; every second entry carries further timing keys (another calendar day) after \'completed\'.',
        'note': 'instants are timezone-aware UTC; after+limit only checked for subset/limit/order; both readings '
        'accepted for after+before+limit; wall clock replaced by a datetime subclass shim inside chronicle and schedule.',
    },
})

CHECKS.update({
    'C09': {
        'level': 'exploration', 'design_ref': 'DESIGN.md section 4 (C09)',
        'technique': 'exhaustive enumeration of generated engine packages, graph compared with a reference computed from the description',
        'text': 'Every DAG on <=3 (thorough 4) algorithms x kind assignment x reference granularity pattern x package '
        'sharing (incl. one package with prefix-colliding names a, ab, abc) x optional feedback reference x both '
        'factory styles, plus hand-picked deep shapes, is written as a real package, scanned by pl.scan and built by '
        'pl.dag.Construct; node sets, edge sets (value / state-vector / algorithm / task level), one object per '
        'tag, parents, ancestry (transitive closure) and the feedback map are compared with the description; deep and '
        'canonical shapes also under a two-component base package. Self-registering packages that begin with a DAWGIE_IGNORE class (complete template / abstract base). One algorithm name in two tasks; hand-written factories handing out less than the package defines.',
        'note': 'graphviz rendering (pydot.Dot.write_svg) is stubbed; self loops created by trimming inside one package '
        'are ignored; node level is not checked (sort heuristic only).',
    },
    'C15': {
        'level': 'exploration', 'design_ref': 'DESIGN.md section 4 (C15)',
        'technique': 'exhaustive enumeration of version pairs/triples and of persisted-version histories through the real store and build',
        'text': '(a) all 729 ordered pairs and 19683 triples of versions in {0,1,2}^3: six operators and newer() against '
        'tuple order, trichotomy, antisymmetry, transitivity. (b) engines x single-element bumps x current snapshot x '
        'per-algorithm persisted history {none, base, bumped, both} x target sets x recording path (pipeline side / '
        'worker side over the wire) through real pl.version.record, db.versions, pl.version.current and '
        'schedule.build: exactly the owners of a non-persisted version are queued, for exactly the known targets; incl. an '
        'algorithm with a key-less state vector.',
        'note': 'shelve back end; one element bumped per software snapshot.',
    },
    'C16': {
        'level': 'exploration', 'design_ref': 'DESIGN.md section 4 (C16)',
        'technique': 'exhaustive enumeration of generated valid and single-rule-broken packages against the expected verdict',
        'text': 'Generated packages on disk in three factory styles (deprecated bots, self-registering, self-registering with '
        'hand-written factories), verdict = _verify(_scan()) and the scan must list every package: every non-empty mix of factory kinds (15) x 3 reference '
        'patterns and every rule-conforming DAG engine must be accepted by tools.compliant._verify and then build '
        'and schedule without error; each mix with exactly one of 28 breakage kinds at every applicable algorithm / '
        'factory position must be rejected; the exit status of python -m dawgie.tools.compliant is compared with the '
        'in-process verdict for a representative of every breakage kind and every valid mix. The command-line runs do not put the engine on PYTHONPATH, start from another directory and include engines under a two-component base package. Breakages include a value class that pickles but cannot be loaded; valid packages include Monday events and packages that begin with an ignored class.',
        'note': 'any exception inside a rule counts as a rejection (as the gate does); the git/merge steps of tools.submit are not run.',
    },
})

_STORE_NOTE = ('shelve back end only (db/post/* needs a PostgreSQL server; none in the sandbox); the kernel socket is '
               'replaced by an in-process loopback feeding a real comms.Worker protocol on the deterministic reactor; '
               'md5sum/sha1sum replaced by hashlib with identical output (validated against the real tools each run)')
CHECKS.update({
    'C06': {
        'level': 'exploration', 'design_ref': 'DESIGN.md section 3 (C06)',
        'technique': 'bounded exhaustive enumeration of store contents x load requests against a reference dictionary',
        'text': 'Every subset (512) of a 9-entry universe (runs, targets, authors, algorithm/state-vector/value version '
        'variants, partial state vector, in-place overwrite) written through the real Interface.update; on each store '
        'and after single mutations (reopen from disk, add target, overwrite, remove) every load in runs x targets x '
        'algorithms x version configurations goes through the real Dataset.load and every slot is compared with a '
        'reference dictionary (exact run, else highest run of the same identity, else the same sentinel object). A loaded value modified in place never changes what a later load returns; Dataset.load(ALG_REF) from another task loads the referenced task\'s entry. Entries under run id -1; a target added explicitly that no load had registered.',
        'note': _STORE_NOTE,
    },
    'C07': {
        'level': 'fault_enumeration', 'design_ref': 'DESIGN.md section 3 (C07)',
        'technique': 'exhaustive update histories + crash injected before every mutating file-system call of an update (fork + profile hook), recovery from disk',
        'text': 'Crash-free: every sequence of <=3 (thorough 4) updates with repeating contents; after each: novelty flag == '
        'digest absent before, one file per distinct content, every file re-hashes to its name, every catalogue value '
        'names an existing file, staging empty. Crash: for each selected history the last update is re-run in a forked '
        'child on a copy of the store directory and killed before its k-th mutating posix/_io call for every k; a '
        'second child re-opens from disk: catalogue opens, no entry refers to a missing file, the update is repeated '
        'and the oracle re-checked. Two-value state vectors (all pairs of updates over 3 contents per slot). Purge '
        'tool: the real db/tools/purge.py __main__ with --context-* options naming one store while the environment '
        'names another, all 15 pairs of store histories: no catalogue entry of either store dangles. The purge tool is also run against an empty (mistyped) catalogue over a populated store. An update that fails half-way and is retried by the same task object; an algorithm with several state vectors sharing value names (each value reported once, under its own name).',
        'note': _STORE_NOTE + '; process-crash model (completed system calls persist, user-space buffers are lost); '
        'staging and store on one file system; read-only calls are merged with the next mutating call (same disk state).',
    },
    'C08': {
        'level': 'exploration', 'design_ref': 'DESIGN.md section 3 (C08)',
        'technique': 'bounded exhaustive enumeration of store contents with prefix-colliding names x name-addressed operations against an exact-name reference',
        'text': 'Every subset (256) of an 8-key universe with prefix-colliding names, 2 insertion orders, 3 registration '
        'paths; per store: name/id bijection, gap-free ids, id stability, chain resolution, next run id, all again '
        'after close/reopen from disk; then 11 removes, every trace and every version reset compared with a reference '
        'computed on exact name equality; a digit-boundary store (ids 1/10/11, runs 8..101); db.tools.worm.consume for '
        'all 23 criteria tuples over {wildcard, value} per field incl. run id 0. Fault enumeration: one failing catalogue write at every write position of a registration (3 registration paths), then the job re-run, two more registrations and a reopen. The worm tool is also started through its command line (argv) with criteria on state-vector and value names.',
        'note': _STORE_NOTE,
    },
})

CHECKS.update({
    'C13': {
        'level': 'model_checking', 'design_ref': 'DESIGN.md section 5 (C13)',
        'technique': 'explicit-state exploration of 2-3 real server protocol instances on a virtual reactor, safety invariants + bounded-response probe in every state',
        'text': 'State graph of 2 (thorough also 3) real comms.Worker connections sharing context.db_lock, explored breadth '
        'first to a fixpoint: acquire, release, connection loss at every protocol step, advance to next timer, advance '
        'one second (all relative poll phases). Every state: at most one owner, lock bit <=> an owner exists, "lock is '
        'yours" sent only in the step the connection acquired it, a dropped holder frees the lock in the same step, a '
        'dropped waiter never acquires and its poll timer dies, a live poll on a free lock is granted; from every state '
        'with a free lock and a live waiter a grant occurs within one poll period. The spaces are explored under three '
        'acquire-label schemes: distinct labels, one label for all clients, empty / None labels. One configuration lets the pipeline close and re-open its data base (real DBSerializer.open) at any moment. Client tier: the real Interface.load/update ending normally / aborted / with an invalid or unpicklable value must leave the lock free and the next client served. One long history (150 rounds, 300 labels never used before) checks that what the server remembers about past clients never gets in the way.',
        'note': 'at most 2 (thorough 3) connections per client per history; clients release only after being told they '
        'hold the lock (as comms.acquire/release do); the client side of the protocol is exercised by every store check '
        '(C06-C08, C15, C17) through the loopback.',
    },
    'C14': {
        'level': 'model_checking', 'design_ref': 'DESIGN.md section 5 (C14)',
        'technique': 'induction over split offsets: every two-chunk split of every stream prefix must reach the one-chunk state; all chunkings outright for reduced streams',
        'text': 'For farm.Hand, comms.Worker and logger.LogSink, with and without the legacy handshake wrapper, and every '
        'stream of the alphabet (1-3 messages; handshake valid / bad first word / bad signature / bad second word / bad '
        'echo signature / wrong echo / short length, each followed by coalesced application bytes): for all i<j feeding '
        'B[:i] then B[i:j] must give the state of feeding B[:j] at once, hence every chunking delivers what whole '
        'delivery does; whole delivery equals the reference; nothing is delivered before the last handshake byte; failed '
        'handshakes close with nothing delivered. Reduced streams: all 2^(n-1) chunkings (db: all chunkings with <=3 cuts). '
        'Client side: the blocking readers message.receive, comms.acquire/release and Connector.__do on 5 multi-message '
        'streams under every 1- and 2-cut chunking of a socket whose recv(n) never returns more than the arrived chunk.',
        'note': 'gnupg replaced by a stand-in signature scheme (the phase machine is the subject); after loseConnection no more '
        'bytes are fed (Twisted stops reading); real TLS sockets are not runnable here.',
    },
    'C19': {
        'level': 'exploration', 'design_ref': 'DESIGN.md section 5 (C19)',
        'technique': 'exhaustive enumeration of request paths over a segment alphabet and of endpoint x method x certificate x hook configurations',
        'text': '(a) every request path of <=4 (thorough 5) segments over 10 symbols x leading slashes x query x isdep through '
        'the real fe._static on a scratch tree with symlinks and tagged outside files: no opened file resolves outside '
        'the roots, no outside token in the reply. (b) every DynamicContent found by walking the route tree x 4 methods x '
        'certificates configured x certificate presented x 5 access hooks: without certificate no run/reset/submit/'
        'snapshot handler runs; a raising or unresolvable hook denies everything; legitimate callers are served. '
        '"Certificates configured" also through the real security._tls_initialize on 5 key-directory layouts with real '
        'self-signed certificates. (c) every sequence of <=3 front-end starts over {site A, site B, bundled site}: nothing of a root that is no longer configured is served.',
        'note': 'handlers are replaced by recorders while the access decision is exercised; request.uri is not percent-decoded '
        '(as Twisted delivers it).',
    },
})

_FSM_NOTE = ('deferToThread is replaced by scheduler-owned virtual threads (body and Deferred delivery are separate '
             'explorer events); scan/db/build (_pipeline), git reload (_reload) and file rotation (_archive) are reduced to '
             'their FSM-relevant tail; ports, GUI, logging and farm.plow are no-ops; byte-code level preemption inside one '
             'condition evaluation is not explored')
CHECKS.update({
    'C10': {
        'level': 'model_checking', 'design_ref': 'DESIGN.md section 5 (C10)',
        'technique': 'explicit-state exploration of the real FSM with virtual threads; illegal-trigger probe and background-step drain in every state',
        'text': 'State graph of the real state.FSM (non-doctest branches) explored breadth first to a fixpoint: boot, both '
        'submit Process flavours (steps 1, 3, failure), farm.dispatch archive trigger, cmd_reset, run/deliver of every '
        'background thread in every order. Every state change is an edge of state.dot (parsed independently), archiving '
        'returns to where it came from, at rest the state is running or gitting with transitioning active, active is '
        'declared only at rest in running; in every state every trigger the dot file forbids must raise MachineError and '
        'leave everything identical, and draining the outstanding background steps must reach rest. Reload tier: real '
        'FSM._reload + RollbackImporter on a generated package for every sequence of <=2 (3) changesets out of 5 kinds. Extra schedules in which the body of one kind of background step (or of all) has finished before deferToThread returns; a second failure() of an already answered submission must change nothing.',
        'note': _FSM_NOTE + '; bounds: <=2 submissions, <=1 new-data event, <=1 user reset per history (thorough: more).',
    },
    'C12': {
        'level': 'model_checking', 'design_ref': 'DESIGN.md section 5 (C12)',
        'technique': 'explicit-state exploration of the FSM with real poller threads under a baton scheduler, safety monitor on update_trigger + drain-and-run liveness probe in every state',
        'text': 'State graph of the real FSM + the three waiter pollers as real threads (one loop iteration per step) + the '
        'real submit Process steps + a work queue driven only through real scheduler/farm calls. At every update_trigger '
        'call the condition of the strongest priority submitted since the last reset holds at that instant, the call is '
        'accepted, at most one per reload cycle; refused submissions change nothing; from every state with an accepted '
        'submission outstanding, draining the work and running every waiter reaches update_trigger. fe.api.cmd_reset is '
        'an event of one configuration (reset = reload now; a refused reset changes nothing). Deviation: the submitting client has gone before the answer (Request.finish raises); one configuration uses the legacy fe.submit.Process. One configuration lets the pipeline leave running for an archive and come back at any moment while a waiter polls.',
        'note': _FSM_NOTE + '; bounds: (2 submissions, 1 run request, 2 reload cycles), (1 submission, 3 run requests) and (2 submissions, 1 run request, 1 cycle, 1 reset).',
    },
})

CHECKS.update({
    'C11': {
        'level': 'model_checking', 'design_ref': 'DESIGN.md section 5 (C11)',
        'technique': 'explicit-state exploration of scheduler+farm with explicit workers, revisions and life-cycle changes; every byte written to every worker decoded and judged',
        'text': 'State graph with an explicit farm: up to 2 workers registering with the current or a stale revision, '
        'disconnecting, polling status; pipeline inactive / active / reload to a new revision (what FSM.load does); '
        'run requests, dispatch, replies. Every task message goes to a connection registered with the revision current '
        'at send time, still connected, holding no task, while active; status polls and registrations are answered '
        'correctly; nothing but abort responses is written while inactive; a reload clears the farm; message fields '
        '(factory, target, run 0 for regressions) match the released unit; the run id is the one the triggering event '
        'carried, else db.next() drawn exactly once per released algorithm; queue conservation at every dispatch '
        '(released + queued = sent + queued); an engine whose algorithms ask for cloud placement (where() / history hint) '
        'on a farm without cloud agency; exceptions out of dispatch are violations. A reload executes the body of the real FSM.load (order of notify_all and clear). Worker tier: Algorithm.abort() answers follow the farm\'s current state. The dispatch that takes the pipeline into the archive leaves no worker registered or waiting; one event released in several batches draws a run id per batch.',
        'note': _SCHED_NOTE + '; cloud (AWS) placement is out of reach; db.next() is a harness constant in this tier '
        '(strict monotonicity of next() against stored runs is decided in C08).',
    },
    'C20': {
        'level': 'exploration', 'design_ref': 'DESIGN.md section 4 (C20)',
        'technique': 'exhaustive enumeration of event specifications x clock instants; bounded exhaustive exploration of firing/dispatch/reply/reload interleavings over 3 periods under a virtual clock',
        'text': '(gate) all 288 MOMENT field combinations through the real compliant.rule_10, every accepted one through '
        '_delay at 38 instants. (a) 114 specifications (dow 0..6, dom 1..31, 3 times of day) + date specs at every hour of 2023-2028 and +-1 s '
        'around every midnight through the real schedule._delay: never raises, designates the specified moment, no '
        'further than one period ahead. (b) real periodics/defer/complete + farm on the virtual reactor and clock, 7 '
        'engines x 5 boot instants, all interleavings of timer / dispatch / reply / reload over a 3-period horizon: a '
        'firing queues exactly the known targets, a boot event fires once per process (also across a reload), every '
        'occurrence of a weekly / monthly event is served within its period. One completion per history may arrive while the journal cannot be written; a unit the scheduler believes executing must exist in the farm batch, the cluster queue or with a worker. Every entry of the work queue has something pending or executing.',
        'note': 'a moment earlier on the current day counts as due (as the code treats it); the farm dispatches before '
        'virtual time passes; a unit may outlive one time step.',
    },
})

CHECKS.update({
    'C02': {
        'level': 'model_checking', 'design_ref': 'DESIGN.md section 2 (C02)',
        'technique': 'explicit-state exploration of the scheduler with an obligation monitor in the state; replay-based exploration of real executions against a from-scratch reference evaluation',
        'text': 'Abstract tier: state graph of the real scheduler/farm where every success reply reports every subset of the '
        'algorithm values as new; a monitor (part of the canonical state) records for each report which algorithms owe a '
        'release for which target (value-level declarations incl. feedback, from the engine description); a release '
        'without cause is a minimality violation, a quiescent state with an undischarged obligation a completeness '
        'violation. Store tier: every released unit is really executed (task message -> pl.worker.Context.run -> Task.do '
        '-> Dataset.load/update -> shelve over the loopback wire) in every completion order and for every choice of which '
        'root values change; at every quiescent state a fresh load of every (target, algorithm, value) equals the '
        'from-scratch evaluation in dependency order. Store-tier configurations: work and reply of a unit as separate '
        'events (replies of re-runs under different run ids in either order), root algorithms calling ds.update() after '
        'each value; the reply carries the list Context.run returned verbatim. Engines include one value read by both an analyzer and a task.',
        'note': _SCHED_NOTE + '; store tier: a unit executes atomically when its reply is delivered except in the split configuration; task-kind algorithms; '
        'root contents carry (algorithm, value, target, epoch); resource-metric values are excluded from the state.',
    },
})

_PENDING = 'check not built yet in this session (planned in DESIGN.md); will move to checks when it exists'
NOT_APPLICABLE = {
    pid: _PENDING
    for pid in [f'C{n:02d}' for n in range(1, 21)]
    if pid not in CHECKS
}
